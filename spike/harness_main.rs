use std::{any::Any, sync::{Arc, Mutex}};
use foyer::*;
use foyer_storage::verif::*;
use foyer_common::error::Result as FResult;
use futures_util::FutureExt;

#[derive(Debug)]
struct SimPartition { id: PartitionId, size: usize, data: Arc<Mutex<Vec<u8>>>, stats: Arc<Statistics> }
impl Partition for SimPartition {
    fn id(&self) -> PartitionId { self.id }
    fn size(&self) -> usize { self.size }
    fn translate(&self, _: u64) -> (RawFile, u64) { unimplemented!() }
    fn statistics(&self) -> &Arc<Statistics> { &self.stats }
}
#[derive(Debug)]
struct SimDevice { cap: usize, image: Arc<Mutex<Vec<Arc<Mutex<Vec<u8>>>>>>, parts: Mutex<Vec<Arc<SimPartition>>>, stats: Arc<Statistics> }
impl Device for SimDevice {
    fn capacity(&self) -> usize { self.cap }
    fn allocated(&self) -> usize { self.parts.lock().unwrap().iter().map(|p| p.size).sum() }
    fn create_partition(&self, size: usize) -> FResult<Arc<dyn Partition>> {
        let mut parts = self.parts.lock().unwrap();
        let alloc: usize = parts.iter().map(|p| p.size).sum();
        if alloc + size > self.cap { return Err(foyer::Error::no_space(self.cap, alloc, alloc + size)); }
        let id = parts.len();
        let mut image = self.image.lock().unwrap();
        if image.len() <= id { image.push(Arc::new(Mutex::new(vec![0u8; size]))); }
        let data = image[id].clone();
        assert_eq!(data.lock().unwrap().len(), size);
        let p = Arc::new(SimPartition { id: id as _, size, data, stats: self.stats.clone() });
        parts.push(p.clone());
        Ok(p)
    }
    fn partitions(&self) -> usize { self.parts.lock().unwrap().len() }
    fn partition(&self, id: PartitionId) -> Arc<dyn Partition> { self.parts.lock().unwrap()[id as usize].clone() }
    fn statistics(&self) -> &Arc<Statistics> { &self.stats }
}
#[derive(Debug)]
struct SimIo;
impl IoEngine for SimIo {
    fn read(&self, mut buf: Box<dyn IoBufMut>, partition: &dyn Partition, offset: u64) -> IoHandle {
        let p = (partition as &dyn Any).downcast_ref::<SimPartition>().unwrap();
        let data = p.data.clone();
        async move {
            let n = shuttle::rand::Rng::gen_range(&mut shuttle::rand::thread_rng(), 0..3);
            for _ in 0..n { shuttle::future::yield_now().await; }
            let d = data.lock().unwrap();
            let len = buf.len();
            buf.copy_from_slice(&d[offset as usize..offset as usize + len]);
            drop(d);
            let b: Box<dyn IoB> = buf.into_iob();
            (b, Ok(()))
        }.boxed().into()
    }
    fn write(&self, buf: Box<dyn IoBuf>, partition: &dyn Partition, offset: u64) -> IoHandle {
        let p = (partition as &dyn Any).downcast_ref::<SimPartition>().unwrap();
        let data = p.data.clone();
        let pid = p.id;
        async move {
            let n = shuttle::rand::Rng::gen_range(&mut shuttle::rand::thread_rng(), 0..3);
            for _ in 0..n { shuttle::future::yield_now().await; }
            let mut d = data.lock().unwrap();
            let len = buf.len();
            d[offset as usize..offset as usize + len].copy_from_slice(&buf[..]);
            { use std::sync::atomic::Ordering::Relaxed; let l = LOG.load(Relaxed); LOG.store(l.wrapping_mul(1099511628211).wrapping_add(pid as u64 * 1000003 + offset * 31 + len as u64), Relaxed); }
            drop(d);
            let b: Box<dyn IoB> = buf.into_iob();
            (b, Ok(()))
        }.boxed().into()
    }
}
#[derive(Debug)]
struct SimIoCfg;
impl IoEngineConfig for SimIoCfg {
    fn build(self: Box<Self>, _: IoEngineBuildContext) -> futures_util::future::BoxFuture<'static, FResult<Arc<dyn IoEngine>>> {
        async move { Ok(Arc::new(SimIo) as Arc<dyn IoEngine>) }.boxed()
    }
}

static LOG: std::sync::atomic::AtomicU64 = std::sync::atomic::AtomicU64::new(0);
type Image = Arc<Mutex<Vec<Arc<Mutex<Vec<u8>>>>>>;
async fn open(image: Image) -> HybridCache<u64, Vec<u8>> {
    let dev: Arc<dyn Device> = Arc::new(SimDevice { cap: 64 * 4096 * 4, image, parts: Mutex::new(vec![]), stats: Arc::new(Statistics::new(Throttle::default())) });
    HybridCacheBuilder::new().with_policy(HybridCachePolicy::WriteOnInsertion).memory(4).with_shards(1)
        .with_weighter(|_, _| 1)
        .storage().with_io_engine_config(Box::new(SimIoCfg) as Box<dyn IoEngineConfig>)
        .with_engine_config(BlockEngineConfig::new(dev).with_block_size(16 * 4096).with_flushers(2).with_buffer_pool_size(2 * 16 * 4096))
        .build().await.unwrap()
}

fn scenario() {
    foyer_common::spawn::Spawner::verif_reset();
    shuttle::future::block_on(async {
        let image: Image = Default::default();
        let h = open(image.clone()).await;
        let mut model = std::collections::HashMap::new();
        for i in 0..40u64 {
            let k = i % 12;
            let v = vec![i as u8; 3000 + (i as usize * 517) % 5000];
            h.insert(k, v.clone());
            model.insert(k, v);
            if i % 3 == 0 {
                let kk = (i * 7) % 12;
                let got = h.get(&kk).await.unwrap();
                if let Some(e) = got { assert_eq!(Some(e.value()), model.get(&kk), "stale/foreign value for key {kk}"); }
            }
        }
        h.storage().wait().await;
        h.close().await.unwrap();
        drop(h);
        shutdown().await;
        let h = open(image.clone()).await;
        let mut hits = 0;
        for k in 0..12u64 {
            if let Some(e) = h.get(&k).await.unwrap() { hits += 1; assert_eq!(Some(e.value()), model.get(&k), "after reopen key {k}"); }
        }
        assert!(hits > 0);
        h.close().await.unwrap();
        drop(h);
        shutdown().await;
    });
}
async fn shutdown() {
    use foyer_common::spawn::Spawner;
    loop {
        Spawner::verif_abort_all();
        if Spawner::verif_all_finished() { break; }
        shuttle::future::yield_now().await;
    }
}

fn main() {
    let n: usize = std::env::args().nth(1).map(|s| s.parse().unwrap()).unwrap_or(20);
    let t = std::time::Instant::now();
    let mut cfg = shuttle::Config::new();
    cfg.stack_size = 1 << 20;
    cfg.max_steps = shuttle::MaxSteps::FailAfter(5_000_000);
    let sched = shuttle::scheduler::RandomScheduler::new_from_seed(12345, n);
    shuttle::Runner::new(sched, cfg).run(scenario);
    println!("ok {n} iterations in {:?} writelog-hash {:x}", t.elapsed(), LOG.load(std::sync::atomic::Ordering::Relaxed));
}
