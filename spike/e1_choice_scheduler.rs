use std::sync::{Arc, Mutex};
use shuttle::scheduler::{Schedule, Scheduler, Task, TaskId};
use foyer::*;

#[derive(Debug)]
struct ChoiceSched { done: bool, choices: Arc<Mutex<Vec<u32>>>, pos: usize, rng: u64, steps: Arc<Mutex<(usize, usize)>> }
impl ChoiceSched { fn draw(&mut self, n: usize) -> usize { self.rng ^= self.rng << 13; self.rng ^= self.rng >> 7; self.rng ^= self.rng << 17; let c = (self.rng % n as u64) as u32; self.choices.lock().unwrap().push(c); self.pos += 1; c as usize } }
impl Scheduler for ChoiceSched {
    fn new_execution(&mut self) -> Option<Schedule> { if self.done { None } else { self.done = true; Some(Schedule::new(0)) } }
    fn next_task(&mut self, runnable: &[&Task], current: Option<TaskId>, _y: bool) -> Option<TaskId> {
        let mut st = self.steps.lock().unwrap(); st.0 += 1; if runnable.len() > 1 { st.1 += 1; } drop(st);
        if runnable.len() == 1 { return Some(runnable[0].id()); }
        // choice 0 = keep running current if runnable
        let mut order: Vec<TaskId> = runnable.iter().map(|t| t.id()).collect();
        if let Some(c) = current { if let Some(i) = order.iter().position(|t| *t == c) { order.swap(0, i); } }
        let i = self.draw(order.len());
        Some(order[i])
    }
    fn next_u64(&mut self) -> u64 { self.draw(1 << 16) as u64 }
}

struct L(Arc<Mutex<Option<Cache<u64, u64>>>>);
impl EventListener for L { type Key = u64; type Value = u64;
    fn on_leave(&self, _r: Event, k: &u64, _v: &u64) { if let Some(c) = self.0.lock().unwrap().as_ref() { let _ = c.get(k); } } }

fn main() {
    let mode = std::env::args().nth(1).unwrap_or("mt".into());
    let steps = Arc::new(Mutex::new((0, 0)));
    let choices = Arc::new(Mutex::new(vec![]));
    let sched = ChoiceSched { done: false, choices: choices.clone(), pos: 0, rng: 88172645463325252, steps: steps.clone() };
    let mut cfg = shuttle::Config::new(); cfg.stack_size = 1 << 20;
    let r = std::panic::catch_unwind(std::panic::AssertUnwindSafe(|| shuttle::Runner::new(sched, cfg).run(move || {
        if mode == "mt" {
            let c: Cache<u64, u64> = CacheBuilder::new(4).with_shards(1).with_eviction_config(LruConfig::default()).build();
            let hs: Vec<_> = (0..3u64).map(|t| { let c = c.clone(); shuttle::thread::spawn(move || { for i in 0..4u64 { c.insert((t + i) % 5, t * 100 + i); if let Some(e) = c.get(&((t + 2 * i) % 5)) { let _ = *e.value(); } } }) }).collect();
            for h in hs { h.join().unwrap(); }
            c.resize(2).unwrap();
            assert!(c.usage() <= 2);
        } else {
            // re-entrant listener: calls back into the same single-shard cache from on_leave
            let slot = Arc::new(Mutex::new(None));
            let c: Cache<u64, u64> = CacheBuilder::new(2).with_shards(1).with_eviction_config(FifoConfig::default()).with_event_listener(Arc::new(L(slot.clone()))).build();
            *slot.lock().unwrap() = Some(c.clone());
            for i in 0..6 { c.insert(i, i); }
            c.clear();
            *slot.lock().unwrap() = None;
        }
    })));
    println!("result ok={} steps={:?} choices={}", r.is_ok(), steps.lock().unwrap(), choices.lock().unwrap().len());
}
