// The real build script only renders README.md into the crate docs; the simulator does not need the docs.
fn main() {
    let out = std::path::Path::new(&std::env::var("OUT_DIR").unwrap()).join("foyer-docs.md");
    std::fs::write(out, "foyer (verification shadow build)\n").unwrap();
}
