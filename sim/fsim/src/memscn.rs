//! Memory scenario: the real `foyer_memory::Cache` driven by N simulated client threads (plus the fetch tasks and
//! resize threads foyer spawns itself), with recording listener / pipe / weighter / filter / destructor hooks.
//! Produces the operation log, the event log and observation snapshots the per-property oracles read.

use std::{
    cell::RefCell,
    sync::{
        Arc, Mutex,
        atomic::{AtomicU32, Ordering},
    },
};

use foyer_common::{
    event::{Event, EventListener},
    properties::{Age, Hint, Location, Properties, Source},
    spawn::Spawner,
};
use foyer_memory::{
    Cache, CacheBuilder, CacheEntry, EvictionConfig, FifoConfig, LfuConfig, LruConfig, Piece, Pipe, S3FifoConfig,
    SieveConfig,
};

use crate::{
    hist,
    types::{Case, DropHook, MKey, MVal, Op, OpRec, Res, SimHasher},
};

#[derive(Debug, Clone, Default)]
pub struct SimProps {
    phantom: bool,
    hint: Hint,
    location: Location,
    age: Age,
}

impl Properties for SimProps {
    fn with_phantom(mut self, phantom: bool) -> Self {
        self.phantom = phantom;
        self
    }
    fn phantom(&self) -> Option<bool> {
        Some(self.phantom)
    }
    fn with_hint(mut self, hint: Hint) -> Self {
        self.hint = hint;
        self
    }
    fn hint(&self) -> Option<Hint> {
        Some(self.hint)
    }
    fn with_location(mut self, location: Location) -> Self {
        self.location = location;
        self
    }
    fn location(&self) -> Option<Location> {
        Some(self.location)
    }
    fn with_age(mut self, age: Age) -> Self {
        self.age = age;
        self
    }
    fn age(&self) -> Option<Age> {
        Some(self.age)
    }
}

pub type MCache = Cache<MKey, MVal, SimHasher, SimProps>;
pub type MEntry = CacheEntry<MKey, MVal, SimHasher, SimProps>;

pub struct Held {
    pub entry: MEntry,
    pub k: u64,
    pub ver: u32,
    pub w: u32,
    pub looked_up: bool,
    pub client: usize,
}

/// Observation taken with side-effect-free calls only.
#[derive(Clone, Debug)]
pub struct Snap {
    pub seq: u64,
    pub after: (usize, usize),
    pub usage: usize,
    pub entries: usize,
    pub contains: Vec<bool>,
    /// (k, ver, w as read now, key as read now, ver as read now, is_outdated, looked_up)
    pub held: Vec<HeldRead>,
}

#[derive(Clone, Debug)]
pub struct HeldRead {
    pub k: u64,
    pub ver: u32,
    pub w: u32,
    pub read_k: u64,
    pub read_ver: u32,
    pub read_w: usize,
    pub outdated: bool,
    pub looked_up: bool,
}

#[derive(Default)]
pub struct MemLog {
    pub oplog: Vec<OpRec>,
    pub snaps: Vec<Snap>,
    /// final sweep: per key Some((ver, w)) if `get` hits
    pub sweep: Vec<Option<(u32, usize)>>,
    pub usage_before_sweep: usize,
    pub entries_before_sweep: usize,
    pub final_held: Vec<HeldRead>,
    /// usage after all handles were dropped and one more weight-1 insert was done; None if not done
    pub usage_after_release_insert: Option<(usize, usize)>,
    pub fill_usage: Option<usize>,
}

thread_local! {
    pub static LOG: RefCell<MemLog> = RefCell::new(MemLog::default());
    static DEPTH: RefCell<std::collections::BTreeMap<usize, u32>> = const { RefCell::new(std::collections::BTreeMap::new()) };
}

pub struct MemCtx {
    pub case: Case,
    pub slot: Mutex<Option<MCache>>,
    pub keys: u64,
    pub reenter: i64,
    pub check_locks: bool,
    pub next_ver: AtomicU32,
    pub filter_mod: u64,
    pub stepwise: bool,
    pub cur_cap: std::sync::atomic::AtomicUsize,
}

fn task_id() -> usize {
    shuttle::current::get_current_task().map(usize::from).unwrap_or(usize::MAX)
}

impl MemCtx {
    pub fn cache(&self) -> Option<MCache> {
        self.slot.try_lock().expect("slot contended").clone()
    }

    /// Called first thing by every user callback.
    fn callback(self: &Arc<Self>, site: &'static str, k: u64) {
        let depth = DEPTH.with(|d| *d.borrow().get(&task_id()).unwrap_or(&0));
        // only the outermost callback is judged: a callback that runs inside a re-entrant operation started by a
        // callback which itself ran under a lock would merely repeat the first report
        if self.check_locks && depth == 0 {
            let held = foyer_common::verif::locks_held();
            if held > 0 {
                hist::violation(
                    "C16",
                    "callback-under-lock",
                    format!("{site} for key {k} invoked while the calling task holds {held} foyer lock(s)"),
                    &[("site", site.to_string())],
                );
            }
            hist::probe("callback_checked");
        }
        if self.reenter > 0 {
            self.reenter_cache(site, k);
        }
    }

    fn reenter_cache(self: &Arc<Self>, site: &'static str, k: u64) {
        let me = task_id();
        let depth = DEPTH.with(|d| *d.borrow().get(&me).unwrap_or(&0));
        if depth >= 2 {
            return;
        }
        let Some(cache) = self.cache() else { return };
        DEPTH.with(|d| *d.borrow_mut().entry(me).or_insert(0) += 1);
        hist::probe("reenter");
        hist::set_nontrivial();
        let sel = (hist::hash_str(site).wrapping_add(k).wrapping_add(depth as u64)) % 5;
        let key = MKey::plain(k % self.keys.max(1));
        match sel {
            0 => {
                let _ = cache.contains(&key);
            }
            1 => {
                let _ = cache.get(&key);
            }
            2 => {
                let ver = self.next_ver.fetch_add(1, Ordering::Relaxed);
                let _ = cache.insert(key, MVal { key: k % self.keys.max(1), ver, w: 1, hook: None });
            }
            3 => {
                let _ = cache.remove(&key);
            }
            _ => {
                let _ = cache.usage();
                let _ = cache.touch(&key);
            }
        }
        DEPTH.with(|d| *d.borrow_mut().entry(me).or_insert(1) -= 1);
    }

    fn hook(self: &Arc<Self>) -> Option<DropHook> {
        if self.check_locks || self.reenter > 0 {
            let ctx = self.clone();
            Some(Arc::new(move |site, k| ctx.callback(site, k)))
        } else {
            None
        }
    }
}

struct RecListener {
    ctx: Arc<MemCtx>,
}

impl EventListener for RecListener {
    type Key = MKey;
    type Value = MVal;
    fn on_leave(&self, reason: Event, key: &MKey, value: &MVal) {
        let r = match reason {
            Event::Evict => 0,
            Event::Replace => 1,
            Event::Remove => 2,
            Event::Clear => 3,
        };
        hist::ev("leave", r, key.k, value.ver as u64);
        self.ctx.callback("listener", key.k);
    }
}

#[derive(Debug)]
struct RecPipe;

thread_local! {
    /// ManuallyDrop: dropped explicitly inside the simulated execution (a run that ends abnormally leaks it rather
    /// than running user destructors from a thread-local destructor).
    static LAST_PHANTOM_PIECE: RefCell<Option<std::mem::ManuallyDrop<Piece<MKey, MVal, SimProps>>>> = const { RefCell::new(None) };
}

fn take_phantom_piece() -> Option<Piece<MKey, MVal, SimProps>> {
    LAST_PHANTOM_PIECE.with(|p| p.borrow_mut().take()).map(std::mem::ManuallyDrop::into_inner)
}

impl Pipe for RecPipe {
    type Key = MKey;
    type Value = MVal;
    type Properties = SimProps;
    fn is_enabled(&self) -> bool {
        true
    }
    fn send(&self, piece: Piece<MKey, MVal, SimProps>) {
        hist::ev("pipe", 0, piece.key().k, piece.value().ver as u64);
        // keep the last disk-only piece: the "disk tier" may hand it back (what a hit in the write queue does)
        if piece.properties().phantom().unwrap_or(false) {
            // (the old piece is dropped after the cell has been released: user destructors may re-enter the cache
            // and come back here)
            let old = LAST_PHANTOM_PIECE.with(|p| p.borrow_mut().replace(std::mem::ManuallyDrop::new(piece)));
            if let Some(old) = old {
                drop(std::mem::ManuallyDrop::into_inner(old));
            }
        }
    }
    fn flush(&self, pieces: Vec<Piece<MKey, MVal, SimProps>>) -> std::pin::Pin<Box<dyn Future<Output = ()> + Send>> {
        for p in pieces.iter() {
            hist::ev("pipe", 1, p.key().k, p.value().ver as u64);
        }
        Box::pin(async {})
    }
}

pub fn eviction_config(algo: i64, variant: i64) -> EvictionConfig {
    match algo {
        0 => FifoConfig::default().into(),
        1 => LruConfig { high_priority_pool_ratio: if variant == 0 { 0.1 } else { 0.5 } }.into(),
        2 => LfuConfig {
            window_capacity_ratio: if variant == 0 { 0.1 } else { 0.3 },
            protected_capacity_ratio: if variant == 0 { 0.8 } else { 0.5 },
            cmsketch_eps: 0.01,
            cmsketch_confidence: 0.9,
        }
        .into(),
        3 => S3FifoConfig {
            small_queue_capacity_ratio: if variant == 0 { 0.1 } else { 0.4 },
            ghost_queue_capacity_ratio: 1.0,
            small_to_main_freq_threshold: 1,
        }
        .into(),
        _ => SieveConfig {}.into(),
    }
}

pub fn build_cache(ctx: &Arc<MemCtx>) -> MCache {
    let case = &ctx.case;
    let mut b = CacheBuilder::new(case.get("cap") as usize)
        .with_shards(case.get("shards").max(1) as usize)
        .with_eviction_config(eviction_config(case.get("algo"), case.get("variant")))
        .with_hash_builder(SimHasher { mode: case.get("hmode") as u8 });
    let c1 = ctx.clone();
    b = b.with_weighter(move |k: &MKey, v: &MVal| {
        c1.callback("weighter", k.k);
        v.w as usize
    });
    let c2 = ctx.clone();
    let fm = ctx.filter_mod;
    b = b.with_filter(move |k: &MKey, _v: &MVal| {
        c2.callback("filter", k.k);
        !(fm > 0 && k.k % fm == fm - 1)
    });
    if case.get("no_listener") == 0 {
        b = b.with_event_listener(Arc::new(RecListener { ctx: ctx.clone() }));
    }
    let cache: MCache = b.build();
    if case.get("pipe") != 0 { cache.with_pipe(Arc::new(RecPipe)) } else { cache }
}

async fn origin(k: u64, ver: u32, w: u32, yields: u8, fail: bool, hook: Option<DropHook>) -> anyhow::Result<MVal> {
    struct Guard(u64, u32, bool);
    impl Drop for Guard {
        fn drop(&mut self) {
            if !self.2 {
                hist::ev("origin_drop", self.0, self.1 as u64, 0);
            }
        }
    }
    let mut g = Guard(k, ver, false);
    hist::ev("origin_start", k, ver as u64, 0);
    for _ in 0..yields {
        shuttle::future::yield_now().await;
    }
    // a real origin future is a black box that may be preempted inside its final poll
    shuttle::thread::yield_now();
    g.2 = true;
    hist::ev("origin_done", k, ver as u64, fail as u64);
    if fail { Err(anyhow::anyhow!("origin failed k={k} ver={ver}")) } else { Ok(MVal { key: k, ver, w, hook }) }
}

/// 1 external (origin error), 2 task cancelled, 3 channel closed, 4 io, 9 other
pub fn err_kind(e: &foyer_common::error::Error) -> u64 {
    use foyer_common::error::ErrorKind as K;
    match e.kind() {
        K::External => 1,
        K::TaskCancelled => 2,
        K::ChannelClosed => 3,
        K::Io => 4,
        _ => 9,
    }
}

fn src(s: Source) -> u64 {
    match s {
        Source::Outer => 1,
        Source::Memory => 2,
        Source::Disk => 3,
    }
}

fn read_entry(prop: &str, k: u64, e: &MEntry, aux: u64) -> Res {
    if e.key().k != k || e.value().key != k {
        hist::violation(
            prop,
            "foreign-value",
            format!("lookup of key {k} returned entry of key {} (value tagged {}.{})", e.key().k, e.value().key, e.value().ver),
            &[("where", "memory".to_string())],
        );
        return Res { tag: Res::BAD, key: e.key().k, ver: e.value().ver, w: e.weight() as u32, aux };
    }
    Res::hit(k, e.value().ver, e.weight() as u32, aux)
}

pub fn read_held(h: &Held) -> HeldRead {
    HeldRead {
        k: h.k,
        ver: h.ver,
        w: h.w,
        read_k: h.entry.key().k,
        read_ver: h.entry.value().ver,
        read_w: h.entry.weight(),
        outdated: h.entry.is_outdated(),
        looked_up: h.looked_up,
    }
}

fn snapshot(ctx: &Arc<MemCtx>, after: (usize, usize), held: &[Held]) {
    let Some(cache) = ctx.cache() else { return };
    let snap = Snap {
        seq: hist::now(),
        after,
        usage: cache.usage(),
        entries: cache.entries(),
        contains: (0..ctx.keys).map(|k| cache.contains(&MKey::plain(k))).collect(),
        held: held.iter().map(read_held).collect(),
    };
    LOG.with(|l| l.borrow_mut().snaps.push(snap));
}

fn exec_op(ctx: &Arc<MemCtx>, client: usize, held: &mut Vec<Held>, op: &Op) -> Res {
    let prop = ctx.case.property.as_str();
    let Some(cache) = ctx.cache() else { return Res::unit() };
    match op {
        Op::Insert { k, ver, w, loc, hold } => {
            let props = SimProps::default().with_location(match loc {
                1 => Location::InMem,
                2 => Location::OnDisk,
                _ => Location::Default,
            });
            let e = cache.insert_with_properties(
                MKey { k: *k, hook: ctx.hook() },
                MVal { key: *k, ver: *ver, w: *w, hook: ctx.hook() },
                props,
            );
            if *hold {
                hist::ev("handle_obtain", *k, *ver as u64, 0);
                held.push(Held { entry: e, k: *k, ver: *ver, w: *w, looked_up: false, client });
            }
            Res::unit()
        }
        Op::Get { k, hold } => match cache.get(&MKey::plain(*k)) {
            Some(e) => {
                let r = read_entry(prop, *k, &e, 2);
                hist::ev("lookup", *k, r.ver as u64, 0);
                if *hold && r.tag == Res::HIT {
                    hist::ev("handle_obtain", *k, r.ver as u64, 1);
                    held.push(Held { entry: e, k: *k, ver: r.ver, w: r.w, looked_up: true, client });
                }
                r
            }
            None => Res::miss(),
        },
        Op::Fetch { k, ver, w, yields, fail, hold } => {
            let hook = ctx.hook();
            let fut = cache.get_or_fetch(&MKey { k: *k, hook: ctx.hook() }, || origin(*k, *ver, *w, *yields, *fail, hook));
            match shuttle::future::block_on(fut) {
                Ok(e) => {
                    let r = read_entry(prop, *k, &e, src(e.source()));
                    if e.source() == Source::Memory {
                        hist::ev("lookup", *k, r.ver as u64, 0);
                    }
                    if *hold && r.tag == Res::HIT {
                        // only a memory hit goes through the lookup path that pins under LRU; a freshly fetched
                        // entry is handed over like the handle `insert` returns
                        let looked_up = e.source() == Source::Memory;
                        hist::ev("handle_obtain", *k, r.ver as u64, looked_up as u64);
                        held.push(Held { entry: e, k: *k, ver: r.ver, w: r.w, looked_up, client });
                    }
                    r
                }
                Err(e) => Res::err(err_kind(&e)),
            }
        }
        Op::AbandonFetch { k, ver, w, yields, polls } => {
            let hook = ctx.hook();
            let mut fut = Box::pin(cache.get_or_fetch(&MKey { k: *k, hook: ctx.hook() }, || origin(*k, *ver, *w, (*yields).max(1), false, hook)));
            let waker = futures_util::task::noop_waker();
            let mut cx = std::task::Context::from_waker(&waker);
            let mut done = None;
            for _ in 0..=*polls {
                if let std::task::Poll::Ready(r) = std::future::Future::poll(fut.as_mut(), &mut cx) {
                    done = Some(r);
                    break;
                }
                shuttle::thread::yield_now();
            }
            let abandoned = done.is_none();
            drop(fut);
            if abandoned {
                // the caller is gone; the fetch task finishes on its own (quiescent point: wait for it)
                hist::fault("caller_abandoned_fetch");
                while !Spawner::verif_all_finished() {
                    shuttle::thread::yield_now();
                }
            }
            match done {
                Some(Ok(e)) => {
                    let r = read_entry(prop, *k, &e, src(e.source()));
                    if e.source() == Source::Memory {
                        // a memory hit went through the lookup path (which pins under LRU)
                        hist::ev("lookup", *k, r.ver as u64, 0);
                    }
                    r
                }
                Some(Err(e)) => Res::err(err_kind(&e)),
                // the orphaned fetch inserted its result (nobody holds a handle to it)
                None => Res::hit(*k, *ver, *w, 1),
            }
        }
        Op::FetchThenInsert { k, ver, ins_ver, w, yields } => {
            let hook = ctx.hook();
            // the origin is held back until the explicit insert has returned (it is the harness's future)
            let gate = Arc::new(std::sync::atomic::AtomicBool::new(false));
            let g2 = gate.clone();
            let (kk, vv, ww, yy) = (*k, *ver, *w, *yields);
            let mut fut = Box::pin(cache.get_or_fetch(&MKey { k: *k, hook: ctx.hook() }, move || async move {
                // held inside ONE poll (a synchronous wait, as if the origin future were preempted there): a fetch task
                // that gets to look at its close flag between two polls gives up before the origin resolves
                let _ = yy;
                while !g2.load(std::sync::atomic::Ordering::SeqCst) {
                    shuttle::thread::yield_now();
                }
                origin(kk, vv, ww, 0, false, hook).await
            }));
            let waker = futures_util::task::noop_waker();
            let mut cx = std::task::Context::from_waker(&waker);
            let first = std::future::Future::poll(fut.as_mut(), &mut cx);
            let e = cache.insert(MKey { k: *k, hook: ctx.hook() }, MVal { key: *k, ver: *ins_ver, w: *w, hook: ctx.hook() });
            drop(e);
            let ins_ret = hist::ev("race_insert_ret", *k, *ins_ver as u64, 0);
            gate.store(true, std::sync::atomic::Ordering::SeqCst);
            drop(first);
            drop(fut);
            while !Spawner::verif_all_finished() {
                shuttle::thread::yield_now();
            }
            // a fetch whose origin resolved only after the explicit insert had returned belongs to a closed round: its
            // result is rejected, and a rejected result must not have evicted anything on its way
            let later = hist::events_since(ins_ret);
            let origin_after = later.iter().any(|e| e.kind == "origin_done" && e.a == *k && e.b == *ver as u64);
            if origin_after {
                hist::probe("stale_fetch_result_after_insert");
                if let Some(ev) = later.iter().find(|e| e.kind == "leave" && e.a == 0) {
                    hist::violation(
                        prop,
                        "stale-fetch-result-evicted",
                        format!("the fetch of ({k},v{ver}) resolved after insert({k},v{ins_ver}) had returned (its round was closed, its result is dropped), yet entry ({},v{}) was evicted on its account", ev.b, ev.c),
                        &[],
                    );
                }
            }
            Res::hit(*k, *ins_ver, *w, 0)
        }
        Op::Contains { k } => Res::boolean(cache.contains(&MKey::plain(*k))),
        Op::Touch { k } => {
            let b = cache.touch(&MKey::plain(*k));
            if b {
                hist::ev("lookup", *k, u32::MAX as u64, 1);
            }
            Res::boolean(b)
        }
        Op::Remove { k } => match cache.remove(&MKey::plain(*k)) {
            Some(e) => read_entry(prop, *k, &e, 2),
            None => Res::miss(),
        },
        Op::Clear => {
            cache.clear();
            Res::unit()
        }
        Op::Resize { cap } => match cache.resize(*cap as usize) {
            Ok(()) => {
                ctx.cur_cap.store(*cap as usize, Ordering::Relaxed);
                Res::boolean(true)
            }
            Err(_) => Res::boolean(false),
        },
        Op::EvictAll => {
            cache.evict_all();
            Res::unit()
        }
        Op::Flush => {
            shuttle::future::block_on(cache.flush());
            Res::unit()
        }
        Op::DropHandle { idx } => {
            if !held.is_empty() {
                let i = *idx as usize % held.len();
                let h = held.remove(i);
                hist::ev("handle_drop", h.k, h.ver as u64, h.looked_up as u64);
                drop(h);
            }
            Res::unit()
        }
        Op::CloneHandle { idx } => {
            if !held.is_empty() {
                let i = *idx as usize % held.len();
                let h = &held[i];
                let c = Held { entry: h.entry.clone(), k: h.k, ver: h.ver, w: h.w, looked_up: h.looked_up, client };
                hist::ev("handle_obtain", c.k, c.ver as u64, c.looked_up as u64);
                held.push(c);
            }
            Res::unit()
        }
        Op::Yield { n } => {
            for _ in 0..*n {
                shuttle::thread::yield_now();
            }
            Res::unit()
        }
        Op::Ctl { what: 40, .. } => {
            // the disk tier hands the last disk-only piece back (a lookup served from its write queue): the entry is
            // re-materialized and dropped again; it has been offered to the disk tier once already
            // (only while nothing of that key is resident: otherwise this would be one more replacing insert, which
            // the operation log does not know about)
            if let Some(piece) = take_phantom_piece().filter(|p| !cache.contains(p.key())) {
                hist::probe("phantom_piece_rematerialized");
                hist::ev("rematerialize", 0, piece.key().k, piece.value().ver as u64);
                drop(cache.insert_piece(piece));
            }
            Res::unit()
        }
        Op::Ctl { what: 1, .. } => {
            // the runtime cancels every task spawned so far (in this scenario: the fetch tasks)
            hist::fault("fetch_task_cancelled");
            Spawner::verif_abort_all();
            Res::unit()
        }
        _ => Res::unit(),
    }
}

fn run_client(ctx: Arc<MemCtx>, client: usize, ops: Vec<Op>) -> Vec<Held> {
    let mut held = vec![];
    for (idx, op) in ops.iter().enumerate() {
        let inv = hist::ev("inv", client as u64, idx as u64, 0);
        let res = exec_op(&ctx, client, &mut held, op);
        let ret = hist::ev("ret", client as u64, idx as u64, res.tag as u64);
        // an abandoned fetch is, for the oracles, the fetch it amounts to
        let logged = match op {
            Op::AbandonFetch { k, ver, w, yields, .. } => Op::Fetch { k: *k, ver: *ver, w: *w, yields: *yields, fail: false, hold: false },
            Op::FetchThenInsert { k, ins_ver, w, .. } => Op::Insert { k: *k, ver: *ins_ver, w: *w, loc: 0, hold: false },
            _ => op.clone(),
        };
        LOG.with(|l| l.borrow_mut().oplog.push(OpRec { client, idx, op: logged, inv, ret, res }));
        if ctx.stepwise {
            snapshot(&ctx, (client, idx), &held);
        }
    }
    held
}

pub async fn runtime_shutdown() {
    let mut spins = 0u32;
    loop {
        // every task is flagged as cancelled before any of them runs again (a runtime shutdown is atomic)
        crate::sched::freeze_others(true);
        Spawner::verif_abort_all();
        crate::sched::freeze_others(false);
        if Spawner::verif_all_finished() {
            break;
        }
        shuttle::future::yield_now().await;
        spins += 1;
        if spins > 100_000 {
            panic!("fsim: runtime shutdown did not converge");
        }
    }
}

/// Entry point, runs inside the simulated execution (main task).
pub fn exec(case: &Case) {
    LOG.with(|l| *l.borrow_mut() = MemLog::default());
    DEPTH.with(|d| d.borrow_mut().clear());
    let clients = case.clients.clone();
    let ctx = Arc::new(MemCtx {
        case: case.clone(),
        slot: Mutex::new(None),
        keys: case.get("keys").max(1) as u64,
        reenter: case.get("reenter"),
        check_locks: case.get("check_locks") != 0,
        next_ver: AtomicU32::new(1_000_000),
        filter_mod: case.get("filter_mod").max(0) as u64,
        stepwise: case.clients.len() == 1 && case.get("stepwise") != 0,
        cur_cap: std::sync::atomic::AtomicUsize::new(case.get("cap").max(0) as usize),
    });
    let cache = build_cache(&ctx);
    *ctx.slot.lock().unwrap() = Some(cache.clone());

    let mut held_all: Vec<Held> = vec![];
    if clients.len() == 1 {
        held_all = run_client(ctx.clone(), 0, clients[0].clone());
    } else {
        let hs: Vec<_> = clients
            .into_iter()
            .enumerate()
            .map(|(i, ops)| {
                let ctx = ctx.clone();
                shuttle::thread::spawn(move || run_client(ctx, i, ops))
            })
            .collect();
        for h in hs {
            held_all.extend(h.join().unwrap());
        }
    }
    // a quiescent point needs the background fetch tasks to be done as well (they always terminate: origins are finite)
    let mut spins = 0u32;
    while !Spawner::verif_all_finished() {
        shuttle::thread::yield_now();
        spins += 1;
        if spins > 1_000_000 {
            panic!("fsim: background tasks did not finish");
        }
    }
    hist::ev("quiescent", 0, 0, 0);

    // ---- final observations, handles still alive
    snapshot(&ctx, (usize::MAX, 0), &held_all);
    let final_held: Vec<HeldRead> = held_all.iter().map(read_held).collect();
    let usage_before_sweep = cache.usage();
    let entries_before_sweep = cache.entries();
    let mut sweep = vec![];
    if case.get("sweep") != 0 {
        for k in 0..ctx.keys {
            match cache.get(&MKey::plain(k)) {
                Some(e) => {
                    if e.key().k != k || e.value().key != k {
                        hist::violation(
                            &case.property,
                            "foreign-value",
                            format!("final sweep: key {k} returned entry of key {}", e.key().k),
                            &[("where", "memory".to_string())],
                        );
                    }
                    sweep.push(Some((e.value().ver, e.weight())));
                }
                None => sweep.push(None),
            }
        }
    }
    hist::ev("sweep_done", 0, 0, 0);

    // ---- release everything, then one more insert must bring the cache within capacity (C18/C05)
    let mut usage_after_release_insert = None;
    for h in held_all.drain(..) {
        hist::ev("handle_drop", h.k, h.ver as u64, h.looked_up as u64);
        drop(h);
    }
    if case.get("release_insert") != 0 {
        // one weight-1 insert into every shard (keys outside the universe); applicable when every shard has room for
        // one entry and the hasher spreads consecutive keys over all shards
        let shards = cache.shards();
        let cap = ctx.cur_cap.load(Ordering::Relaxed);
        let applicable = cap >= shards && (case.get("hmode") != 2 || shards == 1);
        for i in 0..(2 * shards as u64) {
            let ver = ctx.next_ver.fetch_add(1, Ordering::Relaxed);
            let k = ctx.keys + i;
            hist::ev("release_insert", k, ver as u64, 0);
            drop(cache.insert(MKey::plain(k), MVal { key: k, ver, w: 1, hook: None }));
        }
        if applicable {
            usage_after_release_insert = Some((cache.usage(), cap));
        }
    }
    // ---- optional fill phase: weight-1 keys spread over all shards; usage must converge to the capacity
    let mut fill_usage = None;
    if case.get("fill") != 0 {
        let cap = case.get("fill_cap").max(0) as usize;
        cache.clear();
        let _ = cache.resize(cap);
        let shards = cache.shards() as u64;
        for i in 0..(cap as u64 + shards) * 2 {
            let ver = ctx.next_ver.fetch_add(1, Ordering::Relaxed);
            drop(cache.insert(MKey::plain(1000 + i), MVal { key: 1000 + i, ver, w: 1, hook: None }));
        }
        fill_usage = Some(cache.usage());
    }
    LOG.with(|l| {
        let mut l = l.borrow_mut();
        l.sweep = sweep;
        l.usage_before_sweep = usage_before_sweep;
        l.entries_before_sweep = entries_before_sweep;
        l.final_held = final_held;
        l.usage_after_release_insert = usage_after_release_insert;
        l.fill_usage = fill_usage;
    });

    // ---- drop the cache (every remaining entry must leave with Clear), then shut the runtime down
    drop(take_phantom_piece());
    hist::ev("cache_drop", 0, 0, 0);
    *ctx.slot.lock().unwrap() = None;
    drop(cache);
    if case.property != "C13" && case.property != "C16" {
        // (C13 counts the Clear notifications of the final drop, C16 watches callbacks during it)
        crate::run::phase_done();
    }
    shuttle::future::block_on(runtime_shutdown());
    hist::ev("end", 0, 0, 0);
}
