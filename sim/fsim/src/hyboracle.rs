//! Property-specific end-of-workload phases and post-hoc oracles for the hybrid scenario.

use crate::{
    hist,
    hybscn::{Hyb, ST, judge},
    types::{Case, Op, Res, check_value},
};

/// Reads every key of the universe through the public API and judges what comes back.
pub async fn sweep(h: &mut Hyb, via: &'static str) -> Vec<Res> {
    let keys = h.case.get("keys").max(1) as u64;
    let mut out = vec![];
    let Some(cache) = h.cache.clone() else { return out };
    for k in 0..keys {
        crate::hybscn::OP_INV.with(|c| c.set(hist::now()));
        match cache.get(&k).await {
            Ok(Some(e)) => {
                let r = judge(&h.case, k, e.value(), via);
                crate::hybscn::note_source(k, e.source());
                // (the policy oracle follows where each resident copy came from and how old its block was)
                hist::ev("h_get", k, r.ver as u64, crate::hybscn::src(e.source()) | (crate::hybscn::age_of(&e) << 8));
                hist::ev("sweep_get", k, r.ver as u64, r.tag as u64);
                out.push(r);
            }
            Ok(None) => {
                hist::ev("sweep_get", k, 0, Res::MISS as u64);
                out.push(Res::miss());
            }
            Err(e) => {
                hist::ev("sweep_get", k, 0, Res::ERR as u64);
                out.push(Res::err(crate::memscn::err_kind(&e)));
            }
        }
    }
    out
}

pub async fn end_of_workload(h: &mut Hyb) {
    let prop = h.case.property.clone();
    h.unhold_flush();
    match prop.as_str() {
        "C07" => {
            if h.cache.is_some() && !ST.with(|s| s.borrow().closed) {
                if let Some(c) = h.cache.clone() {
                    c.storage().wait().await;
                }
                c07_checkpoint(h, "after-wait").await;
            }
        }
        "C09" => {
            if let Some(c) = h.cache.clone() {
                hist::ev("wait_inv", 0, 0, 0);
                c.storage().wait().await;
                hist::ev("wait_ret", 0, 0, 0);
                // wait() does not cover re-insertions a reclaim submits after it was called: let the device go idle
                crate::simdev::quiesce().await;
                c.storage().wait().await;
                crate::simdev::quiesce().await;
                // quiescent: whatever the disk tier still claims to hold must be loadable from where its index points (a
                // block must not have been cleaned or rewritten while it still backed indexed entries)
                let keys = h.case.get("keys").max(1) as u64;
                for k in 0..keys {
                    if c.storage().may_contains(&k) {
                        hist::probe("c09_claimed_key_loaded");
                        match c.storage().load(&k).await {
                            Ok(foyer::Load::Entry { key, .. }) if key == k => {}
                            Ok(foyer::Load::Piece { .. }) => {}
                            Ok(foyer::Load::Entry { key, .. }) => {
                                hist::violation("C09", "claimed-but-unloadable", format!("the disk tier claims key {k}; loading from the recorded position returns key {key}"), &[]);
                            }
                            Ok(foyer::Load::Miss) | Ok(foyer::Load::Throttled) => {
                                // classification aid: was a re-insertion of this key's entry dropped by the flusher?
                                let hsh = crate::hybscn::hash_of(h.case.get("hmode") as u8, k);
                                let shed = hist::with_events(|evs| evs.iter().any(|e| e.kind == "shed_reinsertion" && e.a == hsh));
                                hist::violation("C09", "claimed-but-unloadable", format!("the disk tier still claims to hold key {k} (may_contains) after everything has been flushed, but loading it from the recorded position misses: its block was reclaimed or rewritten while it still backed the entry"), &[("reinsertion_of_key_was_shed", shed.to_string())]);
                            }
                            Err(e) => hist::violation("C09", "claimed-but-unloadable", format!("load of claimed key {k} failed: {e}"), &[]),
                        }
                    }
                }
                drop(c);
                let _ = sweep(h, "final-sweep").await;
                if let Some(c) = h.cache.clone() {
                    hist::ev("close_inv", 0, 0, 0);
                    let _ = c.close().await;
                    hist::ev("close_ret", 0, 0, 0);
                    ST.with(|s| s.borrow_mut().closed = true);
                }
            }
        }
        "C01" | "C17" | "C12" | "C15" | "C10" | "C06" | "C11" | "C16" => {
            if h.cache.is_some() && !ST.with(|s| s.borrow().closed) {
                let rs = sweep(h, "final-sweep").await;
                if rs.iter().any(|r| r.tag == Res::HIT) {
                    hist::probe("final_sweep_hit");
                }
            }
        }
        "C04" => c04_crash_enumeration(h).await,
        "C03" => {
            if h.case.get("live_corrupt") == 0 {
                c03_fault_enumeration(h).await
            } else if h.cache.is_some() {
                let _ = sweep(h, "final-sweep").await;
            }
        }
        _ => {}
    }
}

/// C06 / C11 on the hybrid cache: the memory-scenario oracles run on the hybrid round's operation log, plus the
/// hybrid-only clause "a lookup-only caller that is joined by a fetching caller receives the fetched entry".
fn c06_c11_hybrid(case: &Case) {
    let evs = hist::events_clone();
    let mut oplog = ST.with(|s| s.borrow().oplog.clone());
    // versions are assigned at run time: the sequential prelude reports them in the result
    for r in oplog.iter_mut().filter(|r| r.client == 0) {
        if let Op::Insert { ver, .. } = &mut r.op {
            *ver = r.res.ver;
        }
    }
    let keys = case.get("keys").max(1) as usize;
    let mut sweep: Vec<Option<(u32, usize)>> = vec![None; keys];
    for e in evs.iter().filter(|e| e.kind == "sweep_get") {
        if (e.a as usize) < keys && e.c == Res::HIT as u64 {
            sweep[e.a as usize] = Some((e.b as u32, 1));
        }
    }
    let log = crate::memscn::MemLog { oplog: oplog.clone(), sweep: sweep.clone(), ..Default::default() };
    crate::memoracle::check(case, &log, &evs);
    if case.property == "C11" {
        // hybrid-only clause: the "older in-flight fetch" may also be a disk lookup that brings back the version the
        // key had BEFORE the round (from the disk or from the disk tier's write queue). Once the explicit insert has
        // returned - and nobody removes or re-inserts the key afterwards - no lookup that starts later may see it.
        for r in oplog.iter().filter(|r| r.client > 0) {
            let Op::Insert { k, ver, .. } = &r.op else { continue };
            // an on-disk advised value is resident nowhere between the return of insert() and the drop of the last
            // handle to it (the waiters hold some); a lookup in that gap reads the disk as it was. That is not an older
            // fetch replacing the insert, so only keys whose inserted value is memory resident are judged here.
            if crate::hybscn::key_class(case, *k) != 0 {
                continue;
            }
            let later_update = oplog.iter().any(|q| q.inv > r.inv && (q.client, q.idx) != (r.client, r.idx) && matches!(&q.op, Op::Insert { k: kk, .. } | Op::Remove { k: kk } if kk == k));
            if later_update {
                continue;
            }
            let before: Vec<u32> = oplog.iter().filter(|q| q.client == 0).filter_map(|q| if let Op::Insert { k: kk, ver, .. } = &q.op { (kk == k).then_some(*ver) } else { None }).collect();
            if before.is_empty() {
                continue;
            }
            hist::probe("c11_hybrid_older_disk_version_checked");
            for q in oplog.iter().filter(|q| q.client > 0 && q.inv > r.ret) {
                if q.res.tag == Res::HIT && q.res.key == *k && before.contains(&q.res.ver) {
                    hist::violation(
                        "C11",
                        "older-disk-version-replaced-insert",
                        format!("insert({k},v{ver}) returned at {}; {:?} by client {} started at {} and returned v{}, the version the key had on disk before the round", r.ret, q.op, q.client, q.inv, q.res.ver),
                        &[],
                    );
                    return;
                }
            }
            if let Some(Some((v, _))) = sweep.get(*k as usize) {
                if before.contains(v) {
                    hist::violation(
                        "C11",
                        "older-disk-version-replaced-insert",
                        format!("insert({k},v{ver}) returned at {} and nothing updated the key afterwards; at the end a lookup returns v{v}, the version the key had on disk before the round", r.ret),
                        &[],
                    );
                    return;
                }
            }
        }
    }
    if case.property != "C06" {
        return;
    }
    // lookup-only callers: when every caller of a key registered while the disk lookups were held, they all belong to
    // one round; if a fetching caller's origin then succeeded (and nothing failed or was cancelled), the lookup-only
    // callers must receive that entry
    let Some(unhold) = evs.iter().find(|e| e.kind == "unhold").map(|e| e.seq) else { return };
    if case.get("abort_fetch") != 0 {
        return;
    }
    // a throttled disk lookup returns before it reaches the load holder (Store::load checks the throttle switch first):
    // a lookup-only caller's round can then be over before the fetching caller registers, and they are not "joined"
    if case.get("throttle_loads") != 0 {
        return;
    }
    for k in 0..keys as u64 {
        let regs: Vec<&hist::Ev> = evs.iter().filter(|e| e.kind == "registered" && e.b == k).collect();
        if regs.is_empty() || regs.iter().any(|e| e.seq > unhold) {
            continue;
        }
        let round_ops: Vec<&crate::types::OpRec> = oplog.iter().filter(|r| r.client > 0 && matches!(&r.op, Op::Fetch { k: kk, .. } | Op::Get { k: kk, .. } if *kk == k)).collect();
        if oplog.iter().any(|r| r.client > 0 && matches!(&r.op, Op::Insert { k: kk, .. } | Op::Remove { k: kk } if *kk == k)) {
            continue;
        }
        let origin_ok: Vec<u32> = evs.iter().filter(|e| e.kind == "origin_done" && e.a == k && e.c == 0).map(|e| e.b as u32).collect();
        let origin_failed = evs.iter().any(|e| e.kind == "origin_done" && e.a == k && e.c != 0);
        if origin_ok.len() != 1 || origin_failed {
            continue;
        }
        for r in round_ops.iter().filter(|r| matches!(r.op, Op::Get { .. })) {
            hist::probe("c06_lookup_only_caller_checked");
            hist::set_nontrivial();
            if r.res.tag != Res::HIT || r.res.ver != origin_ok[0] {
                hist::violation(
                    "C06",
                    "lookup-only-caller-not-served",
                    format!("caller {} looked key {k} up without a fetch closure, was joined by a fetching caller whose origin produced v{}, yet received {:?}", r.client, origin_ok[0], r.res),
                    &[],
                );
            }
        }
    }
}

/// C10 (and the tombstone part of C04): "a later insert of the key is not hidden by the old tombstone". The value
/// oracle allows misses, so a hidden insert needs its own clause: a key whose last operation before a restart is an
/// insert that was flushed (write-on-insertion, wait() returned, not shed) reads as a hit in the first lookup after
/// the restart, as long as no block has been reclaimed.
pub fn c10_post(case: &Case) {
    use crate::simdev;
    let evs = hist::events_clone();
    let oplog = ST.with(|s| s.borrow().oplog.clone());
    let hmode = case.get("hmode") as u8;
    let keys = case.get("keys").max(1) as u64;
    if case.get("policy") != 1 {
        return;
    }
    let g = crate::hybscn::geo(case);
    let first_block = if g.tomb { 1 } else { 0 };
    let cleaned = simdev::DISK.with(|d| d.borrow().writes.iter().any(|w| w.part >= first_block && w.offset == 0 && w.data.len() == simdev::PAGE && w.data.iter().all(|b| *b == 0)));
    if cleaned {
        return;
    }
    // restarts in event order, each with the return of the wait() that preceded it
    let restarts: Vec<u64> = evs.iter().filter(|e| e.kind == "reopened").map(|e| e.seq).collect();
    for (ri, r) in restarts.iter().enumerate() {
        let Some(wait_ret) = evs.iter().rev().find(|e| (e.kind == "wait_ret" || e.kind == "close_ret") && e.seq < *r).map(|e| e.seq) else { continue };
        let next_restart = restarts.get(ri + 1).copied().unwrap_or(u64::MAX);
        for k in 0..keys {
            // last client operation on k that returned before the restart
            let last = oplog.iter().filter(|q| q.ret < *r && matches!(&q.op, Op::Insert { k: kk, .. } | Op::Remove { k: kk } | Op::Delete { k: kk } | Op::WriterInsert { k: kk, .. } | Op::Fetch { k: kk, .. } if *kk == k)).max_by_key(|q| q.ret);
            let Some(last) = last else { continue };
            let Op::Insert { .. } = &last.op else { continue };
            if last.res.tag != Res::HIT || last.ret > wait_ret || oplog.iter().any(|q| matches!(q.op, Op::Clear) && q.ret > last.inv && q.ret < *r) {
                continue;
            }
            let ver = last.res.ver;
            let h = crate::hybscn::hash_of(hmode, k);
            if evs.iter().any(|e| e.kind == "shed" && e.a == h && e.seq > last.inv && e.seq < *r) || rejected(case, k) {
                continue;
            }
            // first lookup of k after the restart (before anything else touches k)
            let first_op = oplog.iter().filter(|q| q.inv > *r && q.inv < next_restart && matches!(&q.op, Op::Get { k: kk, .. } | Op::Insert { k: kk, .. } | Op::Remove { k: kk } | Op::Delete { k: kk } | Op::Fetch { k: kk, .. } if *kk == k)).min_by_key(|q| q.inv);
            let sweep = evs.iter().find(|e| e.kind == "sweep_get" && e.a == k && e.seq > *r && e.seq < next_restart);
            let miss = match (first_op, sweep) {
                (Some(q), _) if matches!(q.op, Op::Get { .. }) => Some((q.res.tag == Res::MISS, q.inv)),
                (Some(_), _) => None,
                (None, Some(e)) => Some((e.c == Res::MISS as u64, e.seq)),
                (None, None) => None,
            };
            let Some((is_miss, at)) = miss else { continue };
            hist::probe("c10_flushed_insert_read_after_restart");
            hist::set_nontrivial();
            if is_miss {
                let after_delete = oplog.iter().any(|q| q.ret < last.inv && matches!(&q.op, Op::Remove { k: kk } | Op::Delete { k: kk } if *kk == k));
                hist::violation(
                    &case.property,
                    "flushed-insert-hidden-after-restart",
                    format!("insert({k},v{ver}) was flushed (wait returned at {wait_ret}) before the restart at {r}, nothing was shed or reclaimed, yet the first lookup after the restart (at {at}) misses"),
                    &[("key_was_deleted_before", after_delete.to_string()), ("tomb", g.tomb.to_string())],
                );
            }
        }
    }
}

/// The overload exclusions ("writes shed by the write-queue threshold") only excuse anything while the overload is
/// real. The write queue is empty after a completed wait()/close(); so when an entry is shed at the queue threshold,
/// everything that can be in the queue was submitted since the last completed wait - if even all of that together
/// stays below the configured threshold, the queue gauge is wrong (e.g. it leaks the sizes of entries the flusher had
/// to drop) and the shed is not the documented limit at work.
fn shed_only_under_real_overload(case: &Case) {
    use crate::simdev::PAGE;
    if !matches!(case.property.as_str(), "C01" | "C09" | "C12" | "C15") {
        return;
    }
    let evs = hist::events_clone();
    let threshold = if case.get("submit_thr_pages") > 0 { case.get("submit_thr_pages") as usize * PAGE } else { 16 << 20 };
    let hmode = case.get("hmode") as u8;
    let (handoffs, lens, max_len): (Vec<(u64, u32, u64, u64)>, std::collections::BTreeMap<(u64, u32), usize>, usize) = ST.with(|s| {
        let s = s.borrow();
        let mut lens = std::collections::BTreeMap::new();
        let mut max_len = 0;
        for (k, m) in s.model.iter() {
            for (v, info) in m.versions.iter() {
                lens.insert((*k, *v), info.len);
                max_len = max_len.max(info.len);
            }
        }
        (s.handoffs.clone(), lens, max_len)
    });
    let mut queued = 0usize;
    for e in &evs {
        match e.kind {
            "wait_ret" | "close_ret" | "reopened" => queued = 0,
            "enqueue" => {
                // size of the entry submitted under this engine sequence (unattributed: the largest value of the run)
                let len = handoffs.iter().find(|(k, _, s, _)| crate::hybscn::hash_of(hmode, *k) == e.a && *s == e.b).and_then(|(k, v, _, _)| lens.get(&(*k, *v)).copied()).unwrap_or(max_len);
                if std::env::var("VERIF_DEBUG").is_ok() {
                    eprintln!("[overload] enqueue hash {} seq {} -> len {len} (max {max_len})", e.a, e.b);
                }
                queued += len + 64;
            }
            "shed" if e.b == 5 => {
                hist::probe("queue_threshold_shed_checked");
                if queued <= threshold {
                    hist::violation(
                        &case.property,
                        "shed-below-queue-threshold",
                        format!("an entry of hash {} was shed at the write-queue threshold ({threshold} bytes) at {}, but at most {queued} bytes have been submitted since the last completed wait()/close(): the queue cannot be that full", e.a, e.seq),
                        &[],
                    );
                    return;
                }
            }
            _ => {}
        }
    }
}

pub fn post(case: &Case) {
    let _ = Op::Clear;
    shed_only_under_real_overload(case);
    if case.property == "C10" {
        c10_post(case);
    }
    if case.clients.len() > 1 && matches!(case.property.as_str(), "C06" | "C11") {
        c06_c11_hybrid(case);
        return;
    }
    match case.property.as_str() {
        "C04" => c04_post(case),
        "C09" => c09_post(case),
        "C03" => c03_post(case),
        "C12" => c12(case),
        "C15" => c15(case),
        _ => {}
    }
}

// ---------------------------------------------------------------------------------------------------------------
// Entry-level write log: every data write of the device, parsed by the independent parser.

#[derive(Clone, Debug)]
pub struct EntryWrite {
    pub key: Option<u64>,
    pub ver: Option<u32>,
    pub hash: u64,
    pub sequence: u64,
    pub issue_seq: u64,
    pub apply_seq: Option<u64>,
    pub part: usize,
    pub offset: usize,
    pub len: usize,
    pub generation: u32,
}

thread_local! {
    static EW_CACHE: std::cell::RefCell<(usize, Vec<EntryWrite>)> = const { std::cell::RefCell::new((usize::MAX, Vec::new())) };
    static TL_CACHE: std::cell::RefCell<(usize, Vec<(u64, u64)>)> = const { std::cell::RefCell::new((usize::MAX, Vec::new())) };
}

/// Cached per write-log length (the log only grows within a run).
pub fn entry_writes() -> Vec<EntryWrite> {
    let n = crate::simdev::writes_len();
    let hit = EW_CACHE.with(|c| {
        let c = c.borrow();
        if c.0 == n { Some(c.1.clone()) } else { None }
    });
    if let Some(v) = hit {
        return v;
    }
    let v = entry_writes_uncached();
    EW_CACHE.with(|c| *c.borrow_mut() = (n, v.clone()));
    v
}

fn entry_writes_uncached() -> Vec<EntryWrite> {
    use crate::{parser, simdev, types::Tagged};
    simdev::DISK.with(|d| {
        let d = d.borrow();
        let mut out = vec![];
        for w in d.writes.iter() {
            for e in parser::parse_entries(&w.data) {
                if !e.checksum_ok {
                    continue;
                }
                let (key, ver) = match (&e.key, &e.value) {
                    (Some(k), Some(Tagged::Ok { key, ver, .. })) if k == key => (Some(*k), Some(*ver)),
                    (Some(k), _) => (Some(*k), None),
                    _ => (None, None),
                };
                out.push(EntryWrite {
                    key,
                    ver,
                    hash: e.header.hash,
                    sequence: e.header.sequence,
                    issue_seq: w.issue_seq,
                    apply_seq: w.apply_seq,
                    part: w.part,
                    offset: w.offset + e.at,
                    len: e.len,
                    generation: w.generation,
                });
            }
        }
        out
    })
}

fn rejected(case: &Case, k: u64) -> bool {
    let m = case.get("reject_mod").max(0) as u64;
    let h = crate::hybscn::hash_of(case.get("hmode") as u8, k);
    (m > 0 && h % m == m - 1) || case.get("admit_mode") != 0
}

// ---------------------------------------------------------------------------------------------------------------
// C12: disk writes happen exactly when policy and placement advice say so.

/// "An entry loaded from disk is rewritten only if its block was already marked for imminent reclaim": with a FIFO picker
/// at most floor(ratio x blocks) blocks are on probation at any time, and the marks only change when a block is
/// reclaimed. So between two reclaims the disk hits reported `Age::Old` can come from at most that many distinct
/// blocks (a mark that survives its block's reuse shows up as too many).
fn c12_probation_bound(case: &Case, evs: &[hist::Ev]) {
    use crate::simdev;
    let ratio = match case.get("picker") {
        1 => return, // every block is on probation
        2 => 0.0,
        3 => 0.34,
        _ => 0.1,
    };
    let g = crate::hybscn::geo(case);
    let first_block = if g.tomb { 1 } else { 0 };
    let bound = (g.blocks as f64 * ratio).floor() as usize;
    let ews = entry_writes();
    // event time of every block clean (zero page at offset 0)
    let cleans: Vec<u64> = simdev::DISK.with(|d| {
        d.borrow().writes.iter().filter(|w| w.part >= first_block && w.offset == 0 && w.data.len() == simdev::PAGE && w.data.iter().all(|b| *b == 0)).filter_map(|w| w.apply_seq).collect()
    });
    // a restart forgets the marks as well
    let cleans: Vec<u64> = {
        let mut c = cleans;
        c.extend(evs.iter().filter(|e| e.kind == "reopened").map(|e| e.seq));
        c.sort();
        c
    };
    let mut old_blocks: std::collections::BTreeSet<usize> = Default::default();
    let mut epoch = 0usize;
    for e in evs.iter().filter(|e| (e.kind == "h_get" || e.kind == "h_fetch") && (e.c & 0xff) == 3) {
        let ep = cleans.iter().filter(|c| **c < e.seq).count();
        if ep != epoch {
            epoch = ep;
            old_blocks.clear();
        }
        if e.c >> 8 != 2 {
            continue;
        }
        // the block the served copy lives in: the latest applied write of that (key, version) before the lookup
        let Some(w) = ews.iter().filter(|w| w.key == Some(e.a) && w.ver == Some(e.b as u32) && w.apply_seq.map(|a| a < e.seq).unwrap_or(false)).max_by_key(|w| w.apply_seq) else { continue };
        old_blocks.insert(w.part);
        hist::probe("c12_old_age_hit_located");
        if old_blocks.len() > bound {
            hist::violation(
                "C12",
                "too-many-blocks-on-probation",
                format!("disk hits reported Age::Old from {} distinct blocks ({:?}) without a reclaim in between, but the picker puts at most {bound} of {} blocks on probation", old_blocks.len(), old_blocks, g.blocks),
                &[("picker", case.get("picker").to_string())],
            );
            return;
        }
    }
}

pub fn c12(case: &Case) {
    use std::collections::{BTreeMap, BTreeSet};
    let evs = hist::events_clone();
    c12_probation_bound(case, &evs);
    let writes = entry_writes();
    let woi = case.get("policy") == 1;
    let v = |rule: &str, detail: String, extra: &[(&str, String)]| {
        let mut shape: Vec<(&str, String)> = vec![("policy", if woi { "woi".into() } else { "woe".into() })];
        shape.extend(extra.iter().cloned());
        hist::violation("C12", rule, detail, &shape);
    };
    // version -> location class
    let mut loc: BTreeMap<(u64, u32), u8> = BTreeMap::new();
    // licences: (k, ver) -> list of (time, cause); voided ones removed
    let mut lic: BTreeMap<(u64, u32), Vec<(u64, &'static str)>> = BTreeMap::new();
    // resident age per version: 0 fresh, 1 young, 2 old
    let mut resident: BTreeMap<(u64, u32), u64> = BTreeMap::new();
    let mut hits: BTreeMap<(u64, u32), Vec<u64>> = BTreeMap::new();
    let mut closed_at: Option<u64> = None;
    let mut last_licence_of_hash: BTreeMap<u64, (u64, u32)> = BTreeMap::new();
    let hmode = case.get("hmode") as u8;
    for e in &evs {
        match e.kind {
            "h_insert" => {
                let (k, ver, l) = (e.a, e.b as u32, e.c as u8);
                loc.insert((k, ver), l);
                // a replaced older version of the key is no longer resident
                resident.retain(|(kk, _), _| *kk != k);
                if l != 2 {
                    resident.insert((k, ver), 0);
                }
                let licensed = match l {
                    1 => false,
                    2 => true,
                    _ => woi,
                };
                if licensed && closed_at.is_none() && !rejected(case, k) {
                    lic.entry((k, ver)).or_default().push((e.seq, if l == 2 { "ondisk-insert" } else { "woi-insert" }));
                    last_licence_of_hash.insert(crate::hybscn::hash_of(hmode, k), (k, ver));
                }
            }
            "h_get" | "h_fetch" if e.b != 0 && e.b != u32::MAX as u64 => {
                let (k, ver) = (e.a, e.b as u32);
                let (src, age) = (e.c & 0xff, e.c >> 8);
                match src {
                    1 => {
                        // freshly fetched from the origin
                        let class = crate::hybscn::key_class(case, k);
                        loc.entry((k, ver)).or_insert(class);
                        resident.retain(|(kk, _), _| *kk != k);
                        if class != 2 {
                            resident.insert((k, ver), 0);
                        }
                        if (woi || class == 2) && class != 1 && closed_at.is_none() && !rejected(case, k) {
                            lic.entry((k, ver)).or_default().push((e.seq, "fetched"));
                            last_licence_of_hash.insert(crate::hybscn::hash_of(hmode, k), (k, ver));
                        }
                    }
                    3 => {
                        resident.retain(|(kk, _), _| *kk != k);
                        resident.insert((k, ver), age);
                        hits.entry((k, ver)).or_default().push(e.seq);
                    }
                    _ => {
                        // memory hit, or served from the write queue (then the record is resident again, fresh)
                        resident.entry((k, ver)).or_insert(0);
                        hits.entry((k, ver)).or_default().push(e.seq);
                    }
                }
            }
            "mem_leave" => {
                let (reason, k, ver) = (e.a, e.b, e.c as u32);
                let age = resident.remove(&(k, ver));
                let l = loc.get(&(k, ver)).copied().unwrap_or(0);
                // a copy that was loaded from a block already marked for reclaim (Age::Old) is rewritten when evicted,
                // whatever its placement class (an on-disk advised entry is resident after a disk hit like any other)
                if reason == 0 && !woi && (l == 0 || (l == 2 && age == Some(2))) && closed_at.is_none() && !rejected(case, k) {
                    if matches!(age, Some(0) | Some(2) | None) {
                        lic.entry((k, ver)).or_default().push((e.seq, "evicted"));
                        last_licence_of_hash.insert(crate::hybscn::hash_of(hmode, k), (k, ver));
                    } else {
                        hist::probe("c12_young_eviction_no_licence");
                    }
                }
            }
            "shed" => {
                // the entry could not be written: its licence is void. The probe carries the engine sequence of the
                // dropped entry (c = sequence + 1), which the hand-off attribution maps back to (key, version); a shed
                // at the queue threshold happens inside the hand-over itself (no sequence yet): the last licence
                let by_seq = if e.c > 0 {
                    ST.with(|s| s.borrow().handoffs.iter().find(|(hk, _, hs, _)| crate::hybscn::hash_of(hmode, *hk) == e.a && *hs == e.c - 1).map(|(k, v, _, _)| (*k, *v)))
                } else {
                    None
                };
                let target = by_seq.or_else(|| if e.c == 0 { last_licence_of_hash.get(&e.a).copied() } else { None });
                if let Some(kv) = target {
                    if let Some(l) = lic.get_mut(&kv) {
                        l.pop();
                    }
                } else if e.c > 0 {
                    hist::probe("c12_shed_of_unattributed_entry");
                }
            }
            "close_ret" => {
                if closed_at.is_none() {
                    closed_at = Some(e.seq);
                }
            }
            "reopened" => closed_at = None,
            "h_ondisk_resident" => {
                hist::probe("c12_ondisk_checked");
                if e.c != 0 {
                    v("ondisk-entry-resident", format!("entry ({},v{}) advised on-disk is retained in memory", e.a, e.b), &[]);
                }
            }
            _ => {}
        }
    }
    // (a) no write without a licence
    let mut by_ver: BTreeMap<(u64, u32), BTreeSet<u64>> = BTreeMap::new();
    for w in &writes {
        if let (Some(k), Some(ver)) = (w.key, w.ver) {
            by_ver.entry((k, ver)).or_default().insert(w.sequence);
        }
    }
    for ((k, ver), seqs) in &by_ver {
        hist::probe("c12_written_version_checked");
        let class = loc.get(&(*k, *ver)).copied().unwrap_or_else(|| crate::hybscn::key_class(case, *k));
        let n_lic = lic.get(&(*k, *ver)).map(|l| l.len()).unwrap_or(0);
        if class == 1 {
            v("inmem-entry-written", format!("entry ({k},v{ver}) advised in-memory-only was written to disk ({} time(s))", seqs.len()), &[]);
            continue;
        }
        if rejected(case, *k) {
            v("rejected-entry-written", format!("entry ({k},v{ver}) was written although the admission filter does not admit it"), &[]);
            continue;
        }
        if seqs.len() > n_lic {
            hist::set_nontrivial();
            let had_hit = hits.get(&(*k, *ver)).map(|h| !h.is_empty()).unwrap_or(false);
            if class == 2 && had_hit {
                // an on-disk advised entry becomes an ordinary resident copy once a lookup has brought it back (from a
                // block on probation it is rewritten on eviction); the residency model above does not follow every
                // path by which such a copy is re-materialized, so its rewrites are not judged
                hist::probe("c12_ondisk_entry_rewritten_after_hit");
                continue;
            }
            v(
                "unlicensed-write",
                format!(
                    "entry ({k},v{ver}) was written {} time(s) with distinct sequences but only {} hand-over(s) are licensed by policy ({})",
                    seqs.len(),
                    n_lic,
                    if woi { "write-on-insertion: one per insert / fresh fetch" } else { "write-on-eviction: one per eviction of a fresh or old entry" }
                ),
                &[("after_hit", had_hit.to_string()), ("class", class.to_string())],
            );
        } else if n_lic > 0 {
            hist::set_nontrivial();
        }
    }
    // (b) every licensed hand-over is written by the next completed wait()/close()
    let barriers: Vec<(u64, u64)> = {
        let mut b = vec![];
        let mut inv = None;
        for e in &evs {
            match e.kind {
                "wait_inv" | "close_inv" => inv = Some(e.seq),
                "wait_ret" | "close_ret" => {
                    if let Some(i) = inv.take() {
                        b.push((i, e.seq));
                    }
                }
                _ => {}
            }
        }
        b
    };
    // the hand-over is complete when the entry has been submitted to its flusher (a background task that evicts may
    // be delayed between the eviction and the submission; wait() only covers what has been submitted)
    let handoffs = ST.with(|s| s.borrow().handoffs.clone());
    let submitted_after = |k: u64, ver: u32, t: u64| -> Option<u64> {
        // engine sequences under which this version was handed over, then the matching "submitted" probe
        let seqs: Vec<u64> = handoffs.iter().filter(|(hk, hv, _, _)| *hk == k && *hv == ver).map(|x| x.2).collect();
        let h = crate::hybscn::hash_of(hmode, k);
        evs.iter().find(|e| e.kind == "submitted" && e.a == h && seqs.contains(&e.b) && e.seq > t).map(|e| e.seq)
    };
    for ((k, ver), ls) in &lic {
        for (t, cause) in ls {
            let Some(sub) = submitted_after(*k, *ver, *t) else { continue };
            if let Some((_, ret)) = barriers.iter().find(|(inv, _)| *inv > sub) {
                hist::probe("c12_licence_with_barrier");
                let written = writes.iter().any(|w| w.key == Some(*k) && w.ver == Some(*ver) && w.apply_seq.map(|a| a < *ret).unwrap_or(false));
                // a shed voids the licence of the LAST hand-over of that hash (above); when several entries of one
                // hash were queued and shed, the others are recognised here: a shed of the hash between the hand-over
                // and the barrier
                let h = crate::hybscn::hash_of(hmode, *k);
                let shed_in_window = evs.iter().any(|e| e.kind == "shed" && e.a == h && e.seq > *t && e.seq < *ret);
                if !written && shed_in_window {
                    hist::probe("c12_missing_write_excused_by_shed");
                } else if !written {
                    v(
                        "missing-write",
                        format!("entry ({k},v{ver}) was handed to the disk tier ({cause}) at {t} but no device write of it completed before wait()/close() returned at {ret}"),
                        &[("cause", cause.to_string())],
                    );
                }
            }
        }
    }
    // (d) the origin runs only after the disk lookup resolved
    let mut held: Option<(u64, u64)> = None;
    for e in &evs {
        match e.kind {
            "held_fetch_start" => held = Some((e.a, e.seq)),
            "held_fetch_release" => {
                if e.b == 0 {
                    hist::probe("c12_held_fetch_blocked");
                }
                held = None;
            }
            "origin_start" => {
                if let Some((k, at)) = held {
                    if k == e.a {
                        v(
                            "origin-before-disk-lookup",
                            format!("origin fetch of key {k} started at {} while its disk lookup (held since {at}) had not resolved", e.seq),
                            &[],
                        );
                    }
                }
            }
            _ => {}
        }
    }
}

// ---------------------------------------------------------------------------------------------------------------
// C15: a graceful close persists what memory held.

pub fn c15(case: &Case) {
    use std::collections::BTreeMap;
    let evs = hist::events_clone();
    let woi = case.get("policy") == 1;
    let foc = case.get("flush_on_close") != 0;
    let hmode = case.get("hmode") as u8;
    let v = |rule: &str, detail: String| {
        hist::violation(
            "C15",
            rule,
            detail,
            &[("policy", if woi { "woi".into() } else { "woe".into() }), ("flush_on_close", foc.to_string())],
        );
    };
    // close windows
    let mut closes: Vec<(u64, u64)> = vec![];
    let mut inv = None;
    let mut reopened_at: Option<u64> = None;
    for e in &evs {
        match e.kind {
            "close_inv" => inv = Some(e.seq),
            "close_ret" => {
                if let Some(i) = inv.take() {
                    if reopened_at.is_none() {
                        closes.push((i, e.seq));
                    }
                }
            }
            "reopened" => {
                if reopened_at.is_none() && !closes.is_empty() {
                    reopened_at = Some(e.seq);
                }
            }
            _ => {}
        }
    }
    let Some(&(c_inv, c_ret)) = closes.first() else { return };
    let cleaned = evs.iter().any(|e| e.kind == "dev_write_apply" && false);
    let _ = cleaned;
    // nothing new is handed to the disk tier at close when flush-on-close is off; second close writes nothing;
    // nothing is accepted after close
    let client_task = evs.iter().find(|e| e.kind == "close_inv").map(|e| e.task).unwrap_or(usize::MAX);
    // (hand-offs by background tasks that merely overlap the close are not caused by it)
    for e in evs.iter().filter(|e| e.kind == "enqueue" && e.task == client_task) {
        if !foc && e.seq > c_inv && e.seq < c_ret {
            v("handed-over-at-close-without-flush", format!("hash {} was handed to the disk tier during close() although flush_on_close is off", e.a));
        }
        for (i, r) in closes.iter().skip(1) {
            if e.seq > *i && e.seq < *r {
                v("repeated-close-writes", format!("hash {} was handed to the disk tier by a repeated close()", e.a));
            }
        }
        if e.seq > c_ret && reopened_at.map(|r| e.seq < r).unwrap_or(true) && closes.iter().all(|(i, r)| !(e.seq > *i && e.seq < *r)) {
            v("write-accepted-after-close", format!("hash {} was accepted by the disk tier after close() returned", e.a));
        }
    }
    let Some(reopen) = reopened_at else { return };
    if !foc && !woi {
        return;
    }
    // every entry resident at close (not in-memory-only, admitted, not shed) is retrievable with its latest value
    let shed_hashes: Vec<u64> = evs.iter().filter(|e| e.kind == "shed" && e.seq < c_ret).map(|e| e.a).collect();
    let reclaimed = crate::simdev::DISK.with(|d| {
        d.borrow().writes.iter().any(|w| w.offset == 0 && w.data.len() == crate::simdev::PAGE && w.data.iter().all(|b| *b == 0) && w.part >= 1)
    });
    if reclaimed {
        hist::probe("c15_skipped_reclaim_happened");
        return;
    }
    let mut after: BTreeMap<u64, (u64, u64)> = BTreeMap::new();
    for e in evs.iter().filter(|e| e.kind == "sweep_get" && e.seq > reopen) {
        after.entry(e.a).or_insert((e.b, e.c));
    }
    for e in evs.iter().filter(|e| e.kind == "resident_at_close") {
        let (k, ver) = (e.a, e.b as u32);
        if crate::hybscn::key_class(case, k) == 1 || rejected(case, k) || shed_hashes.contains(&crate::hybscn::hash_of(hmode, k)) {
            continue;
        }
        // keys touched again after the close are outside the claim (generators only touch fresh keys after close)
        let Some((got, tag)) = after.get(&k).copied() else { continue };
        hist::probe("c15_resident_checked");
        hist::set_nontrivial();
        if tag != Res::HIT as u64 || got as u32 != ver {
            // classification aid: was the entry written, but does its block contain a sequence regression (which makes
            // recovery drop the rest of the block)?
            let regress = block_has_sequence_regression(case);
            let written = entry_writes().iter().any(|w| w.key == Some(k) && w.apply_seq.map(|a| a < c_ret).unwrap_or(false) && (w.ver == Some(ver) || w.ver.is_none()));
            hist::violation(
                "C15",
                "resident-entry-not-persisted",
                format!("entry ({k},v{ver}) was resident in memory at close(); after reopening a lookup returned {} (tag {tag})", if tag == Res::HIT as u64 { format!("v{got}") } else { "nothing".into() }),
                &[
                    ("policy", if woi { "woi".into() } else { "woe".into() }),
                    ("flush_on_close", foc.to_string()),
                    ("written_before_close_returned", written.to_string()),
                    ("referenced_at_close_under_lru", (e.c > 0 && case.get("algo") == 1).to_string()),
                    ("sequence_regression_in_a_block", regress.to_string()),
                ],
            );
            continue;
        }
        if false {
            v(
                "resident-entry-not-persisted",
                format!("entry ({k},v{ver}) was resident in memory at close(); after reopening a lookup returned {} (tag {tag})", if tag == Res::HIT as u64 { format!("v{got}") } else { "nothing".into() }),
            );
        }
    }
}


/// Does any block of the current image hold blob-index entries whose sequences decrease (in scan order)?
pub fn block_has_sequence_regression(case: &Case) -> bool {
    let g = crate::hybscn::geo(case);
    let first_block = if g.tomb { 1 } else { 0 };
    crate::simdev::DISK.with(|d| {
        let d = d.borrow();
        d.parts.iter().skip(first_block).any(|b| {
            let (located, _) = crate::parser::scan_block_raw(b, g.blob_index_size);
            located.windows(2).any(|w| w[1].sequence < w[0].sequence)
        })
    })
}


/// Tombstones (hash, sequence) that were written to the tombstone log at some point but are missing from the current
/// image of the log (partition 0 when the log is enabled).
pub fn tombstones_lost() -> Vec<(u64, u64)> {
    let n = crate::simdev::writes_len();
    let hit = TL_CACHE.with(|c| {
        let c = c.borrow();
        if c.0 == n { Some(c.1.clone()) } else { None }
    });
    if let Some(v) = hit {
        return v;
    }
    let v = tombstones_lost_uncached();
    TL_CACHE.with(|c| *c.borrow_mut() = (n, v.clone()));
    v
}

fn tombstones_lost_uncached() -> Vec<(u64, u64)> {
    use std::collections::BTreeSet;
    crate::simdev::DISK.with(|d| {
        let d = d.borrow();
        let parse = |bytes: &[u8]| -> BTreeSet<(u64, u64)> {
            bytes
                .chunks_exact(16)
                .map(|c| (u64::from_be_bytes(c[0..8].try_into().unwrap()), u64::from_be_bytes(c[8..16].try_into().unwrap())))
                .filter(|(_, s)| *s != 0)
                .collect()
        };
        let mut ever: BTreeSet<(u64, u64)> = BTreeSet::new();
        for w in d.writes.iter().filter(|w| w.part == 0) {
            ever.extend(parse(&w.data));
        }
        let now = d.parts.first().map(|p| parse(p)).unwrap_or_default();
        ever.difference(&now).copied().collect()
    })
}

// ---------------------------------------------------------------------------------------------------------------
// C04: recovery after a crash at any point is consistent.

#[derive(Clone, Debug)]
struct AckedOp {
    /// version inserted (Some) or a delete (None)
    ver: Option<u32>,
    /// the version counter when the op happened (deletes: versions below this are older than the delete)
    next_ver_at: u32,
    /// event time from which the op is covered by a completed wait()/close(): u64::MAX if never
    acked_at: u64,
    at: u64,
}

/// What the recorded history says about each key's disk-tier operations, for crash points at time `t`.
fn acked_ops(case: &Case, evs: &[hist::Ev]) -> std::collections::BTreeMap<u64, Vec<AckedOp>> {
    use std::collections::BTreeMap;
    let hmode = case.get("hmode") as u8;
    let handoffs: Vec<_> = ST.with(|s| {
        let s = s.borrow();
        s.handoffs.iter().take(s.crash_handoffs).cloned().collect()
    });
    // barriers: (inv, ret)
    let mut barriers = vec![];
    let mut inv = None;
    for e in evs {
        match e.kind {
            "wait_inv" | "close_inv" => inv = Some(e.seq),
            "wait_ret" | "close_ret" => {
                if let Some(i) = inv.take() {
                    barriers.push((i, e.seq));
                }
            }
            _ => {}
        }
    }
    let ack_time = |submitted_at: u64| barriers.iter().find(|(i, _)| *i > submitted_at).map(|(_, r)| *r).unwrap_or(u64::MAX);
    let mut out: BTreeMap<u64, Vec<AckedOp>> = BTreeMap::new();
    let mut next_ver = 0u32;
    for e in evs {
        match e.kind {
            "h_insert" => {
                next_ver = next_ver.max(e.b as u32);
            }
            "origin_done" if e.c == 0 => next_ver = next_ver.max(e.b as u32),
            "h_remove" => {
                // the tombstone is submitted synchronously by remove(); it is covered by the next wait()
                out.entry(e.a).or_default().push(AckedOp { ver: None, next_ver_at: next_ver + 1, acked_at: ack_time(e.seq), at: e.seq });
            }
            "submitted" => {
                // which (key, version) was this? via the hand-off attribution
                for (k, v, s, _) in handoffs.iter().filter(|(k, _, s, _)| crate::hybscn::hash_of(hmode, *k) == e.a && *s == e.b) {
                    let _ = s;
                    // a shed after the submission voids it
                    let shed = evs.iter().any(|x| x.kind == "shed" && x.a == e.a && x.seq > e.seq && {
                        // the next submission of the same hash bounds the window
                        let next_sub = evs.iter().find(|y| y.kind == "submitted" && y.a == e.a && y.seq > e.seq).map(|y| y.seq).unwrap_or(u64::MAX);
                        x.seq < next_sub
                    });
                    if !shed {
                        out.entry(*k).or_default().push(AckedOp { ver: Some(*v), next_ver_at: *v, acked_at: ack_time(e.seq), at: e.seq });
                    }
                }
            }
            _ => {}
        }
    }
    out
}

/// End of the C04 workload: the process dies here. One follow-up execution per crash point rebuilds the device image
/// (issue-order prefix of the write log plus a page-granular tear of the next write), reopens the store on it with
/// the real recovery code and reads the whole key universe. Judged post hoc by `c04_post`.
pub async fn c04_crash_enumeration(h: &mut Hyb) {
    use crate::simdev;
    let case = h.case.clone();
    let thorough = case.get("thorough") != 0;
    let n = simdev::writes_len();
    ST.with(|s| {
        let mut s = s.borrow_mut();
        s.crash_writes = n;
        s.crash_handoffs = s.handoffs.len();
    });
    let pages_of = |m: usize| simdev::DISK.with(|d| d.borrow().writes[m].data.len().div_ceil(simdev::PAGE));
    let mut points: Vec<(usize, u64)> = vec![];
    let focus = case.get("focus_tail").max(0) as usize;
    if thorough {
        for m in (if focus > 0 { n.saturating_sub(focus) } else { 0 })..=n {
            points.push((m, 0));
            if m < n {
                let pages = pages_of(m);
                if pages >= 2 {
                    if pages <= 6 {
                        for mask in 1..((1u64 << pages) - 1) {
                            points.push((m, mask));
                        }
                    } else {
                        for _ in 0..8 {
                            points.push((m, (crate::choice::io_draw(1 << 30) as u64) & ((1u64 << pages.min(60)) - 1)));
                        }
                    }
                }
            }
        }
    } else {
        points.push((n, 0));
        for _ in 0..7 {
            if n == 0 {
                break;
            }
            let m = crate::choice::io_draw(n);
            let pages = pages_of(m);
            let mask = if pages >= 2 && crate::choice::io_draw(2) == 0 { (crate::choice::io_draw(1 << 30) as u64) & ((1u64 << pages.min(60)) - 1) } else { 0 };
            points.push((m, mask));
        }
    }
    points.sort();
    points.dedup();
    let second_life = case.get("second_life") != 0 && case.clients.get(1).map(|c| !c.is_empty()).unwrap_or(false);
    for (j, (m, mask)) in points.into_iter().enumerate() {
        let case = case.clone();
        // second life after this recovery? 0 no; 1 the second crash comes after everything the second life wrote;
        // 2 at a random prefix of it
        let second = if second_life && crate::choice::io_chance(if thorough { 1 } else { 2 }, 3) { 1 + crate::choice::io_draw(2) } else { 0 };
        crate::run::push_follow_up(
            format!("recovery at crash point {m}/{n} mask {mask:#x}"),
            Box::new(move || recover_on_prefix(case, j as u64, m, mask, n, second)),
        );
    }
    // crash points by completion state: the device has acknowledged some writes, others are still in flight (foyer issues
    // concurrent writes: several flushers, blob parts, the tombstone log); at the crash every acknowledged write is on
    // the device and ANY subset of the writes in flight is. (An issue-order prefix is the special case "all of them".)
    let pending_at = |m: usize| -> Vec<usize> {
        simdev::DISK.with(|d| {
            let d = d.borrow();
            let t = d.writes[m].issue_seq;
            d.writes.iter().take(m + 1).filter(|w| w.apply_seq.map(|a| a > t).unwrap_or(true)).map(|w| w.idx).collect()
        })
    };
    let mut subset_points = 0;
    let want = if thorough { n } else { 6 };
    for i in 0..(if thorough { n } else { 24.min(n) }) {
        if subset_points >= want || n == 0 {
            break;
        }
        let m = if thorough { i } else { crate::choice::io_draw(n) };
        let pending = pending_at(m);
        if pending.len() < 2 {
            continue;
        }
        subset_points += 1;
        // each write in flight made it to the device or not
        let persisted: Vec<usize> = pending.iter().copied().filter(|_| crate::choice::io_draw(2) == 0).collect();
        let case = case.clone();
        let j = 1_000_000 + i as u64;
        crate::run::push_follow_up(
            format!("recovery at the issue of write {m}/{n} with {} of {} writes in flight persisted", persisted.len(), pending.len()),
            Box::new(move || recover_on_subset(case, j, m, pending, persisted)),
        );
    }
    // the process dies: whatever was in flight never completes
    crate::run::phase_done();
    h.shutdown(false).await;
}

/// Device image at the moment write `m` is issued: every write the device had acknowledged by then, plus the given
/// subset of the writes in flight.
fn subset_image(m: usize, persisted: &[usize]) -> Vec<Vec<u8>> {
    use crate::simdev;
    simdev::DISK.with(|d| {
        let d = d.borrow();
        let t = d.writes[m].issue_seq;
        let sizes: Vec<usize> = d.parts.iter().map(|p| p.len()).collect();
        let mut img: Vec<Vec<u8>> = sizes.iter().map(|s| vec![0u8; *s]).collect();
        for w in d.writes.iter().take(m + 1) {
            let acked = w.apply_seq.map(|a| a <= t).unwrap_or(false);
            if acked || persisted.contains(&w.idx) {
                let end = (w.offset + w.data.len()).min(img[w.part].len());
                img[w.part][w.offset..end].copy_from_slice(&w.data[..end - w.offset]);
            }
        }
        img
    })
}

/// Runs inside its own simulated execution.
fn recover_on_subset(case: Case, j: u64, m: usize, pending: Vec<usize>, persisted: Vec<usize>) {
    use crate::simdev;
    let img = subset_image(m, &persisted);
    simdev::DISK.with(|d| {
        let mut d = d.borrow_mut();
        d.parts = img;
        d.inflight = 0;
    });
    hist::fault("crash_with_inflight_subset");
    hist::ev("crashs_begin", j, m as u64, pending.len() as u64);
    for w in &pending {
        hist::ev("crashs_inflight", j, *w as u64, persisted.contains(w) as u64);
    }
    let keys = case.get("keys").max(1) as u64;
    shuttle::future::block_on(async move {
        let mut h = Hyb { g: crate::hybscn::geo(&case), case: case.clone(), ctl: crate::hybscn::new_ctl(&case), cache: None, held: vec![] };
        if !h.reopen().await {
            return;
        }
        let cache = h.cache.clone().unwrap();
        read_universe(&cache, keys, "crashs_get", j).await;
        hist::ev("crashs_end", j, 0, 0);
        drop(cache);
        crate::run::phase_done();
        h.shutdown(false).await;
    });
}

/// Device image as of crash point (m, mask) of the workload's write log (`n` writes), plus - for the second crash of
/// a second life - the first `p` of the writes `lo..` issued after the first recovery began.
fn crash_image(m: usize, mask: u64, n: usize, second: Option<(usize, usize)>) -> Vec<Vec<u8>> {
    use crate::simdev;
    simdev::DISK.with(|d| {
        let d = d.borrow();
        let sizes: Vec<usize> = d.parts.iter().map(|p| p.len()).collect();
        let mut img: Vec<Vec<u8>> = sizes.iter().map(|s| vec![0u8; *s]).collect();
        let mut put = |img: &mut Vec<Vec<u8>>, w: &simdev::WriteRec| {
            let end = (w.offset + w.data.len()).min(img[w.part].len());
            img[w.part][w.offset..end].copy_from_slice(&w.data[..end - w.offset]);
        };
        for w in d.writes.iter().take(m) {
            put(&mut img, w);
        }
        if mask != 0 && m < n {
            simdev::apply_torn(&mut img, &d.writes[m], mask);
        }
        if let Some((lo, p)) = second {
            for w in d.writes.iter().skip(lo).take(p) {
                put(&mut img, w);
            }
        }
        img
    })
}

async fn read_universe(cache: &crate::hybscn::HCache, keys: u64, kind: &'static str, j: u64) {
    use crate::types::Tagged;
    for k in 0..keys {
        // code: version, or u32::MAX miss, u32::MAX-1 error, u32::MAX-2 garbage, u32::MAX-3 foreign
        let code: u64 = match cache.get(&k).await {
            Ok(Some(e)) => match check_value(e.value()) {
                Tagged::Ok { key, ver, .. } if key == k => ver as u64,
                Tagged::Ok { .. } => (u32::MAX - 3) as u64,
                Tagged::Garbage => (u32::MAX - 2) as u64,
            },
            Ok(None) => u32::MAX as u64,
            Err(_) => (u32::MAX - 1) as u64,
        };
        hist::ev(kind, j, k, code);
    }
}

/// Runs inside its own simulated execution.
fn recover_on_prefix(case: Case, j: u64, m: usize, mask: u64, n: usize, second: usize) {
    use crate::simdev;
    // image = issue-order prefix + tear
    let img = crash_image(m, mask, n, None);
    simdev::DISK.with(|d| {
        let mut d = d.borrow_mut();
        d.parts = img;
        d.inflight = 0;
    });
    if mask != 0 {
        hist::fault("torn_write");
    }
    hist::fault("crash_point");
    hist::ev("crash_begin", j, m as u64, mask);
    let keys = case.get("keys").max(1) as u64;
    // everything written from here on (by the recovery itself and by the second life) belongs to this follow-up
    let lo = simdev::writes_len();
    shuttle::future::block_on(async move {
        let mut h = Hyb { g: crate::hybscn::geo(&case), case: case.clone(), ctl: crate::hybscn::new_ctl(&case), cache: None, held: vec![] };
        if !h.reopen().await {
            return;
        }
        let cache = h.cache.clone().unwrap();
        read_universe(&cache, keys, "crash_get", j).await;
        hist::ev("crash_end", j, 0, 0);
        if second != 0 {
            // second life: the recovered store is used again, then the process dies a second time
            hist::fault("second_life");
            hist::ev("g2_begin", j, 0, 0);
            for op in case.clients.get(1).cloned().unwrap_or_default() {
                match op {
                    Op::Insert { k, w, .. } => {
                        let ver = crate::hybscn::fresh_ver();
                        let len = crate::hybscn::value_len(&h.g, w.min(1), ver);
                        crate::hybscn::model_register(k, ver, len, 0, w.min(1));
                        hist::ev("g2_insert", j, k, ver as u64);
                        drop(cache.insert(k, crate::types::make_value(k, ver, len, false)));
                    }
                    Op::Remove { k } => {
                        hist::ev("g2_remove", j, k, 0);
                        cache.remove(&k);
                    }
                    _ => {}
                }
            }
            // write-on-eviction: everything resident is handed to the disk tier now; then all of it is flushed
            cache.memory().evict_all();
            cache.storage().wait().await;
            hist::ev("g2_acked", j, 0, 0);
            let hi = simdev::writes_len();
            hist::ev("g2_end", j, lo as u64, hi as u64);
            let case2 = case.clone();
            crate::run::push_follow_up(
                format!("second recovery after crash point {m}/{n} mask {mask:#x} + second life"),
                Box::new(move || recover_second(case2, j, m, mask, n, lo, hi, second)),
            );
        }
        drop(cache);
        crate::run::phase_done();
        h.shutdown(false).await;
    });
}

/// The second crash of a second life: image = first crash image + a prefix of what the first recovery and the second
/// life wrote; recover once more and read the key universe.
#[allow(clippy::too_many_arguments)]
fn recover_second(case: Case, j: u64, m: usize, mask: u64, n: usize, lo: usize, hi: usize, second: usize) {
    use crate::simdev;
    let total = hi - lo;
    let p = if second == 1 || total == 0 { total } else { crate::choice::io_draw(total + 1) };
    let img = crash_image(m, mask, n, Some((lo, p)));
    simdev::DISK.with(|d| {
        let mut d = d.borrow_mut();
        d.parts = img;
        d.inflight = 0;
    });
    hist::fault("second_crash_point");
    hist::ev("crash2_begin", j, p as u64, total as u64);
    let keys = case.get("keys").max(1) as u64;
    shuttle::future::block_on(async move {
        let mut h = Hyb { g: crate::hybscn::geo(&case), case: case.clone(), ctl: crate::hybscn::new_ctl(&case), cache: None, held: vec![] };
        if !h.reopen().await {
            return;
        }
        let cache = h.cache.clone().unwrap();
        read_universe(&cache, keys, "crash2_get", j).await;
        hist::ev("crash2_end", j, 0, 0);
        drop(cache);
        crate::run::phase_done();
        h.shutdown(false).await;
    });
}

pub fn c04_post(case: &Case) {
    use crate::simdev;
    use std::collections::{BTreeMap, BTreeSet};
    let all_evs = hist::events_clone();
    // the workload proper ends where the first recovery begins; everything later belongs to follow-up executions
    let wl_end = all_evs.iter().position(|e| e.kind == "crash_begin").unwrap_or(all_evs.len());
    let evs = &all_evs[..wl_end];
    let n = ST.with(|s| s.borrow().crash_writes);
    let all_writes: Vec<simdev::WriteRec> = simdev::DISK.with(|d| d.borrow().writes.clone());
    let writes = &all_writes[..n.min(all_writes.len())];
    let ops = acked_ops(case, evs);
    let handoffs: Vec<_> = ST.with(|s| {
        let s = s.borrow();
        s.handoffs.iter().take(s.crash_handoffs).cloned().collect::<Vec<_>>()
    });
    if std::env::var("VERIF_DEBUG").is_ok() {
        eprintln!("[c04] writes {n}, keys with ops {}, handoffs {}", ops.len(), handoffs.len());
        for (k, v) in ops.iter().take(3) {
            eprintln!("[c04] key {k}: {v:?}");
        }
    }
    let versions: BTreeMap<u64, BTreeSet<u32>> = ST.with(|s| s.borrow().model.iter().map(|(k, m)| (*k, m.versions.keys().copied().collect())).collect());
    let g = crate::hybscn::geo(case);
    let hmode = case.get("hmode") as u8;
    let first_block = if g.tomb { 1 } else { 0 };
    let is_clean = |w: &simdev::WriteRec| w.part >= first_block && w.offset == 0 && w.data.len() == simdev::PAGE && w.data.iter().all(|b| *b == 0);
    let mut regress_cache: BTreeMap<(usize, u64, usize, usize), bool> = Default::default();
    let mut regress_of = |m: usize, mask: u64, second: Option<(usize, usize)>| -> bool {
        *regress_cache.entry((m, mask, second.map(|x| x.0).unwrap_or(0), second.map(|x| x.1).unwrap_or(0))).or_insert_with(|| {
            let img = crash_image(m, mask, n, second);
            img.iter().skip(first_block).any(|b| {
                let (located, _) = crate::parser::scan_block_raw(b, g.blob_index_size);
                located.windows(2).any(|w| w[1].sequence < w[0].sequence)
            })
        })
    };
    let ended: BTreeSet<u64> = all_evs.iter().filter(|e| e.kind == "crash_end").map(|e| e.a).collect();
    let ended2: BTreeSet<u64> = all_evs.iter().filter(|e| e.kind == "crash2_end").map(|e| e.a).collect();
    // crash point of follow-up j
    let mut point: BTreeMap<u64, (usize, u64)> = BTreeMap::new();
    // second life of follow-up j: per key the operations in order (Some(version) insert, None delete), the hashes shed
    // while it ran, whether its final wait() returned, and its write range
    #[derive(Default)]
    struct Life {
        ops: BTreeMap<u64, Vec<Option<u32>>>,
        shed: BTreeSet<u64>,
        acked: bool,
        lo: usize,
        hi: usize,
        open: bool,
    }
    let mut lives: BTreeMap<u64, Life> = BTreeMap::new();
    let mut cur_life: Option<u64> = None;
    // crash points by completion state: j -> (write being issued, the in-flight writes that made it to the device)
    let mut subsets: BTreeMap<u64, (usize, Vec<usize>)> = BTreeMap::new();
    for e in &all_evs {
        match e.kind {
            "crashs_begin" => {
                subsets.insert(e.a, (e.b as usize, vec![]));
            }
            "crashs_inflight" => {
                if e.c != 0 {
                    if let Some(s) = subsets.get_mut(&e.a) {
                        s.1.push(e.b as usize);
                    }
                }
            }
            "crash_begin" => {
                point.insert(e.a, (e.b as usize, e.c));
            }
            "g2_begin" => {
                lives.entry(e.a).or_default().open = true;
                cur_life = Some(e.a);
            }
            "g2_insert" => lives.entry(e.a).or_default().ops.entry(e.b).or_default().push(Some(e.c as u32)),
            "g2_remove" => lives.entry(e.a).or_default().ops.entry(e.b).or_default().push(None),
            "g2_acked" => lives.entry(e.a).or_default().acked = true,
            "g2_end" => {
                let l = lives.entry(e.a).or_default();
                l.lo = e.b as usize;
                l.hi = e.c as usize;
                l.open = false;
                cur_life = None;
            }
            "shed" => {
                if let Some(j) = cur_life {
                    lives.entry(j).or_default().shed.insert(e.a);
                }
            }
            _ => {}
        }
    }
    let decode = |k: u64, code: u64, what: &str| -> Option<Result<u32, ()>> {
        if code == u32::MAX as u64 {
            Some(Err(()))
        } else if code == (u32::MAX - 1) as u64 {
            None
        } else if code == (u32::MAX - 2) as u64 {
            hist::violation("C04", "garbage-value-after-crash", format!("{what}: key {k} reads bytes nobody inserted"), &[]);
            None
        } else if code == (u32::MAX - 3) as u64 {
            hist::violation("C04", "foreign-value-after-crash", format!("{what}: key {k} reads another key's value"), &[]);
            None
        } else if !versions.get(&k).map(|v| v.contains(&(code as u32))).unwrap_or(false) {
            hist::violation("C04", "garbage-value-after-crash", format!("{what}: key {k} reads unknown version v{code}"), &[]);
            None
        } else {
            Some(Ok(code as u32))
        }
    };
    let client_task = evs.iter().find(|e| e.kind == "inv").map(|e| e.task as u64).unwrap_or(u64::MAX);
    // the strong clause against the workload's acknowledged operations, for a read `got` of key k at crash time t;
    // `may_miss`: a miss is excused (an unacknowledged delete of the second life may have been applied)
    let mut judge_first_life = |k: u64, got: Result<u32, ()>, t: u64, what: &str, shape_common: &Vec<(&'static str, String)>, may_miss: bool| {
        let Some(kops) = ops.get(&k) else { return };
        let acked: Vec<&AckedOp> = kops.iter().filter(|o| o.acked_at < t).collect();
        let Some(last) = acked.iter().max_by_key(|o| o.at) else { return };
        hist::set_nontrivial();
        hist::probe("c04_acked_key_judged");
        match (last.ver, got) {
            (Some(av), Ok(ver)) => {
                if ver < av {
                    hist::violation(
                        "C04",
                        "acked-version-regressed",
                        format!("{what} (no block reclaimed): write of ({k},v{av}) was acknowledged as flushed at {} but the key reads older v{ver}", last.acked_at),
                        shape_common,
                    );
                }
            }
            (Some(av), Err(())) => {
                let later_delete = kops.iter().any(|o| o.ver.is_none() && o.at > last.at && o.at < t);
                // a later update of the key that the flusher had to drop (overload) invalidates the older on-disk
                // version, exactly like a delete does: the key then legitimately misses
                let h = crate::hybscn::hash_of(hmode, k);
                let later_shed = evs.iter().any(|e| e.kind == "shed" && e.a == h && e.seq > last.at && e.seq < t);
                if later_shed {
                    hist::probe("c04_miss_excused_by_dropped_update");
                }
                if !later_delete && !may_miss && !later_shed {
                    hist::violation(
                        "C04",
                        "acked-version-lost",
                        format!("{what} (no block reclaimed): write of ({k},v{av}) was acknowledged as flushed at {} but the key reads as a miss", last.acked_at),
                        shape_common,
                    );
                }
            }
            (None, Ok(ver)) => {
                if g.tomb && ver < last.next_ver_at {
                    // classification aid: was that version handed to the disk tier by a background task whose
                    // submission came after the delete (the hand-off raced the delete)?
                    let raced = handoffs.iter().any(|(hk, hv, hs, ht)| {
                        *hk == k && *hv == ver && *ht != client_task && evs.iter().any(|e| e.kind == "submitted" && e.a == crate::hybscn::hash_of(hmode, k) && e.b == *hs && e.seq > last.at)
                    });
                    let mut shape = shape_common.clone();
                    shape.push(("background_handoff_after_delete", raced.to_string()));
                    hist::violation(
                        "C04",
                        "acked-delete-undone",
                        format!("{what} (no block reclaimed): delete of key {k} was acknowledged as flushed at {} but the key reads v{ver} from before it", last.acked_at),
                        &shape,
                    );
                } else if !g.tomb {
                    if let Some(ai) = acked.iter().filter(|o| o.ver.is_some()).max_by_key(|o| o.at) {
                        if ver < ai.ver.unwrap() {
                            hist::violation("C04", "acked-version-regressed", format!("{what}: key {k} reads v{ver}, older than acknowledged v{}", ai.ver.unwrap()), shape_common);
                        }
                    }
                }
            }
            (None, Err(())) => {}
        }
    };
    for e in &all_evs {
        match e.kind {
            "crash_begin" => {
                if !ended.contains(&e.a) {
                    // the recovery never got to the point of serving lookups (a panic is reported separately)
                    hist::probe("c04_recovery_incomplete");
                }
            }
            "crash2_begin" => {
                if !ended2.contains(&e.a) {
                    hist::probe("c04_recovery_incomplete");
                }
            }
            "crash_get" => {
                let Some(&(m, mask)) = point.get(&e.a) else { continue };
                let (k, code) = (e.b, e.c);
                let t = if m < n { writes[m].issue_seq } else { u64::MAX };
                hist::probe("c04_key_judged");
                let what = format!("crash point {m}/{n} mask {mask:#x}");
                let Some(got) = decode(k, code, &what) else { continue };
                if writes.iter().take(m).any(is_clean) {
                    hist::probe("c04_weak_clause_only");
                    continue;
                }
                if !ops.contains_key(&k) {
                    continue;
                }
                let shape_common = vec![
                    ("tomb", g.tomb.to_string()),
                    ("torn", (mask != 0).to_string()),
                    ("blob_pages", case.get("blob_pages").to_string()),
                    ("sequence_regression_in_a_block", regress_of(m, mask, None).to_string()),
                ];
                judge_first_life(k, got, t, &what, &shape_common, false);
            }
            "crashs_get" => {
                let Some((m, persisted)) = subsets.get(&e.a) else { continue };
                let (m, k, code) = (*m, e.b, e.c);
                if m >= n {
                    continue;
                }
                let t = writes[m].issue_seq;
                hist::probe("c04_inflight_subset_key_judged");
                let what = format!("crash when write {m}/{n} was issued, {} of the writes in flight on the device", persisted.len());
                let Some(got) = decode(k, code, &what) else { continue };
                let on_device = |w: &simdev::WriteRec| w.apply_seq.map(|a| a <= t).unwrap_or(false) || persisted.contains(&w.idx);
                if writes.iter().take(m + 1).any(|w| on_device(w) && is_clean(w)) {
                    hist::probe("c04_weak_clause_only");
                    continue;
                }
                if !ops.contains_key(&k) {
                    continue;
                }
                let regress = {
                    let img = subset_image(m, persisted);
                    img.iter().skip(first_block).any(|b| {
                        let (located, _) = crate::parser::scan_block_raw(b, g.blob_index_size);
                        located.windows(2).any(|w| w[1].sequence < w[0].sequence)
                    })
                };
                let shape_common = vec![
                    ("tomb", g.tomb.to_string()),
                    ("torn", "false".to_string()),
                    ("blob_pages", case.get("blob_pages").to_string()),
                    ("sequence_regression_in_a_block", regress.to_string()),
                    ("inflight_subset", "true".to_string()),
                ];
                judge_first_life(k, got, t, &what, &shape_common, false);
            }
            "crash2_get" => {
                let Some(&(m, mask)) = point.get(&e.a) else { continue };
                let Some(life) = lives.get(&e.a) else { continue };
                let Some(c2) = all_evs.iter().find(|x| x.kind == "crash2_begin" && x.a == e.a) else { continue };
                let (p, total) = (c2.b as usize, c2.c as usize);
                let (k, code) = (e.b, e.c);
                let t = if m < n { writes[m].issue_seq } else { u64::MAX };
                hist::probe("c04_second_life_key_judged");
                let what = format!("crash point {m}/{n} mask {mask:#x}, second life, second crash after {p}/{total} of its writes");
                let Some(got) = decode(k, code, &what) else { continue };
                let second_writes = &all_writes[life.lo.min(all_writes.len())..(life.lo + p).min(all_writes.len())];
                if writes.iter().take(m).any(is_clean) || second_writes.iter().any(is_clean) {
                    hist::probe("c04_weak_clause_only");
                    continue;
                }
                let shape_common = vec![
                    ("tomb", g.tomb.to_string()),
                    ("torn", (mask != 0).to_string()),
                    ("blob_pages", case.get("blob_pages").to_string()),
                    ("sequence_regression_in_a_block", regress_of(m, mask, Some((life.lo, p))).to_string()),
                    ("second_life", "true".to_string()),
                    ("flushers_gt_1", (case.get("flushers") > 1).to_string()),
                ];
                let kops: &[Option<u32>] = life.ops.get(&k).map(|v| v.as_slice()).unwrap_or(&[]);
                let h = crate::hybscn::hash_of(hmode, k);
                let acked2 = life.acked && p == total && !life.shed.contains(&h) && !rejected(case, k);
                match (kops.last(), acked2) {
                    (Some(Some(v2)), true) => {
                        // the second life's last insert of the key was flushed before the second crash
                        hist::set_nontrivial();
                        hist::probe("c04_second_life_acked_key_judged");
                        match got {
                            Ok(ver) if ver == *v2 => {}
                            Ok(ver) => hist::violation(
                                "C04",
                                "acked-version-regressed",
                                format!("{what} (no block reclaimed): ({k},v{v2}) was written and flushed after the restart but the key reads older v{ver}"),
                                &shape_common,
                            ),
                            Err(()) => hist::violation(
                                "C04",
                                "acked-version-lost",
                                format!("{what} (no block reclaimed): ({k},v{v2}) was written and flushed after the restart but the key reads as a miss"),
                                &shape_common,
                            ),
                        }
                    }
                    (Some(None), true) => {
                        hist::set_nontrivial();
                        hist::probe("c04_second_life_acked_key_judged");
                        if let (true, Ok(ver)) = (g.tomb, got) {
                            hist::violation(
                                "C04",
                                "acked-delete-undone",
                                format!("{what} (no block reclaimed): key {k} was deleted and the delete flushed after the restart but the key reads v{ver}"),
                                &shape_common,
                            );
                        }
                    }
                    _ => {
                        // nothing of the second life is acknowledged for this key: any of its own versions may show,
                        // otherwise the first life's acknowledged state must still hold
                        if let Ok(ver) = got {
                            if kops.iter().any(|o| *o == Some(ver)) {
                                continue;
                            }
                        }
                        let may_miss = kops.iter().any(|o| o.is_none());
                        judge_first_life(k, got, t, &what, &shape_common, may_miss);
                    }
                }
            }
            _ => {}
        }
    }
}

// ---------------------------------------------------------------------------------------------------------------
// C03: corrupted or misdirected disk bytes never surface as a cached value.

#[derive(Clone, Debug)]
pub enum Fault {
    BitFlip { part: usize, page: usize, bit: usize },
    ZeroPage { part: usize, page: usize },
    SwapInBlock { part: usize, a: usize, b: usize },
    SwapAcrossBlocks { part_a: usize, part_b: usize, page: usize },
    /// replace the page by the `gen`-th older content it had earlier in the run
    Stale { part: usize, page: usize, generation: usize },
}

fn apply_fault(img: &mut [Vec<u8>], f: &Fault, history: &std::collections::BTreeMap<(usize, usize), Vec<Vec<u8>>>) {
    use crate::simdev::PAGE;
    match f {
        Fault::BitFlip { part, page, bit } => {
            img[*part][page * PAGE + bit / 8] ^= 1 << (bit % 8);
        }
        Fault::ZeroPage { part, page } => img[*part][page * PAGE..(page + 1) * PAGE].fill(0),
        Fault::SwapInBlock { part, a, b } => {
            let pa = img[*part][a * PAGE..(a + 1) * PAGE].to_vec();
            let pb = img[*part][b * PAGE..(b + 1) * PAGE].to_vec();
            img[*part][a * PAGE..(a + 1) * PAGE].copy_from_slice(&pb);
            img[*part][b * PAGE..(b + 1) * PAGE].copy_from_slice(&pa);
        }
        Fault::SwapAcrossBlocks { part_a, part_b, page } => {
            let pa = img[*part_a][page * PAGE..(page + 1) * PAGE].to_vec();
            let pb = img[*part_b][page * PAGE..(page + 1) * PAGE].to_vec();
            img[*part_a][page * PAGE..(page + 1) * PAGE].copy_from_slice(&pb);
            img[*part_b][page * PAGE..(page + 1) * PAGE].copy_from_slice(&pa);
        }
        Fault::Stale { part, page, generation } => {
            if let Some(h) = history.get(&(*part, *page)) {
                if let Some(old) = h.get(*generation) {
                    img[*part][page * PAGE..(page + 1) * PAGE].copy_from_slice(old);
                }
            }
        }
    }
}

/// (byte offset, length) of the fields of whatever structure the independent parser recognises at the start of a page:
/// an entry header (plus the value's length prefix and the key), a blob index (checksum, count, the first entries), or
/// - in the tombstone log partition - tombstone slots.
fn interesting_fields(page: &[u8], tombstone_part: bool) -> Vec<(usize, usize)> {
    use crate::parser;
    let mut out = vec![];
    if tombstone_part {
        // slot = hash 8 | sequence 8 (16 bytes): the first two non-zero slots
        for (i, slot) in page.chunks(16).enumerate().filter(|(_, s)| s.iter().any(|b| *b != 0)).take(2) {
            let _ = slot;
            out.push((i * 16, 8));
            out.push((i * 16 + 8, 8));
        }
        return out;
    }
    if let Some(h) = parser::parse_header(page) {
        out.extend([(0, 4), (4, 4), (8, 8), (16, 8), (24, 8), (32, 3), (35, 1)]);
        let body = parser::ENTRY_HEADER;
        if body + 8 <= page.len() {
            out.push((body, 8));
        }
        let key_at = body + h.value_len;
        if h.key_len > 0 && key_at + h.key_len <= page.len() {
            out.push((key_at, h.key_len));
        }
        return out;
    }
    // blob index? checksum 8 | count 4 | entries (hash 8, sequence 8, offset 4, len 4)
    let count = u32::from_be_bytes(page[8..12].try_into().unwrap()) as usize;
    if count > 0 && count <= (2 * parser::PAGE - 12) / 24 && page[..8].iter().any(|b| *b != 0) {
        out.extend([(0, 8), (8, 4)]);
        for i in 0..count.min(2) {
            let b = 12 + i * 24;
            out.extend([(b, 8), (b + 8, 8), (b + 16, 4), (b + 20, 4)]);
        }
        // the last entry decides where the next blob starts
        if count > 2 && 12 + count * 24 <= page.len() {
            let b = 12 + (count - 1) * 24;
            out.extend([(b + 16, 4), (b + 20, 4)]);
        }
    }
    out
}

/// Older contents of every page (excluding what it holds now), oldest first.
fn page_history() -> std::collections::BTreeMap<(usize, usize), Vec<Vec<u8>>> {
    use crate::simdev::{self, PAGE};
    simdev::DISK.with(|d| {
        let d = d.borrow();
        let mut cur: std::collections::BTreeMap<(usize, usize), Vec<u8>> = Default::default();
        let mut hist: std::collections::BTreeMap<(usize, usize), Vec<Vec<u8>>> = Default::default();
        for w in d.writes.iter().filter(|w| w.apply_seq.is_some()) {
            for (i, chunk) in w.data.chunks(PAGE).enumerate() {
                if chunk.len() < PAGE {
                    continue;
                }
                let key = (w.part, w.offset / PAGE + i);
                if let Some(prev) = cur.insert(key, chunk.to_vec()) {
                    if prev != chunk {
                        let h = hist.entry(key).or_default();
                        if h.last() != Some(&prev) {
                            h.push(prev);
                        }
                    }
                }
            }
        }
        hist
    })
}

/// End of the C03 workload: graceful close, then one follow-up execution per fault on the closed image.
pub async fn c03_fault_enumeration(h: &mut Hyb) {
    use crate::simdev::{self, PAGE};
    let case = h.case.clone();
    let thorough = case.get("thorough") != 0;
    h.shutdown(true).await;
    let clean: Vec<Vec<u8>> = simdev::image();
    let history = std::sync::Arc::new(page_history());
    let clean = std::sync::Arc::new(clean);
    // pages that hold something
    let mut used: Vec<(usize, usize)> = vec![];
    for (p, bytes) in clean.iter().enumerate() {
        for (i, c) in bytes.chunks(PAGE).enumerate() {
            if c.iter().any(|b| *b != 0) {
                used.push((p, i));
            }
        }
    }
    let g = crate::hybscn::geo(&case);
    let first_block = if g.tomb { 1 } else { 0 };
    let nparts = clean.len();
    let pages_per_block = g.block_size / PAGE;
    let mut faults: Vec<Fault> = vec![];
    let clean2 = clean.clone();
    let mut gen_for = |part: usize, page: usize, faults: &mut Vec<Fault>, all: bool| {
        let draw = |n: usize| crate::choice::io_draw(n.max(1));
        if all || draw(5) == 0 {
            faults.push(Fault::BitFlip { part, page, bit: draw(PAGE * 8) });
        }
        // structure-aware flips: one bit inside each field of an entry header / blob index / tombstone found on
        // the page (located with the independent parser), so that every field's validation is exercised
        let fields = interesting_fields(&clean2[part][page * PAGE..(page + 1) * PAGE], part < first_block);
        if !fields.is_empty() {
            hist::probe("c03_structured_page");
        }
        for (off, len) in fields {
            if all || draw(6) == 0 {
                faults.push(Fault::BitFlip { part, page, bit: (off + draw(len)) * 8 + draw(8) });
            }
        }
        if all || draw(5) == 0 {
            faults.push(Fault::ZeroPage { part, page });
        }
        if part >= first_block {
            if all || draw(5) == 0 {
                let other = draw(pages_per_block);
                if other != page {
                    faults.push(Fault::SwapInBlock { part, a: page, b: other });
                }
            }
            if (all || draw(5) == 0) && nparts - first_block >= 2 {
                let other = first_block + draw(nparts - first_block);
                if other != part {
                    faults.push(Fault::SwapAcrossBlocks { part_a: part, part_b: other, page });
                }
            }
        }
        if let Some(hs) = history.get(&(part, page)) {
            if all {
                for generation in 0..hs.len().min(4) {
                    faults.push(Fault::Stale { part, page, generation });
                }
            } else if draw(3) == 0 {
                faults.push(Fault::Stale { part, page, generation: draw(hs.len()) });
            }
        }
    };
    if case.get("focus_index") != 0 {
        // full-index variant: the pages of blob indexes only, every field, and each of the low bits of the count
        for (p, i) in &used {
            let page = &clean[*p][*i * PAGE..(*i + 1) * PAGE];
            let fields = interesting_fields(page, *p < first_block);
            let is_index = crate::parser::parse_header(page).is_none() && !fields.is_empty();
            if !is_index {
                continue;
            }
            for (off, len) in fields {
                faults.push(Fault::BitFlip { part: *p, page: *i, bit: (off + crate::choice::io_draw(len)) * 8 + crate::choice::io_draw(8) });
            }
            for bit in 0..3 {
                // count is a big-endian u32 at bytes 8..12: its low bits
                faults.push(Fault::BitFlip { part: *p, page: *i, bit: 11 * 8 + bit });
            }
            faults.push(Fault::ZeroPage { part: *p, page: *i });
        }
    } else if thorough {
        for (p, i) in &used {
            gen_for(*p, *i, &mut faults, true);
        }
    } else {
        // sample pages, biased to used ones
        for _ in 0..10 {
            if used.is_empty() {
                break;
            }
            let (p, i) = used[crate::choice::io_draw(used.len())];
            gen_for(p, i, &mut faults, false);
        }
    }
    // random multi-fault sets
    let multi = if thorough { 6 } else { 2 };
    let mut jobs: Vec<Vec<Fault>> = faults.into_iter().map(|f| vec![f]).collect();
    for _ in 0..multi {
        if used.len() < 2 {
            break;
        }
        let mut set = vec![];
        for _ in 0..(2 + crate::choice::io_draw(3)) {
            let (p, i) = used[crate::choice::io_draw(used.len())];
            let mut one = vec![];
            gen_for(p, i, &mut one, false);
            set.extend(one.into_iter().take(1));
        }
        if !set.is_empty() {
            jobs.push(set);
        }
    }
    let cap = if thorough { 4000 } else { 32 };
    jobs.truncate(cap);
    ST.with(|s| s.borrow_mut().crash_writes = simdev::writes_len());
    for (j, set) in jobs.into_iter().enumerate() {
        let case = case.clone();
        let clean = clean.clone();
        let history = history.clone();
        let label = format!("recovery with {:?}", set);
        crate::run::push_follow_up(
            label.chars().take(160).collect(),
            Box::new(move || {
                let mut img: Vec<Vec<u8>> = (*clean).clone();
                for f in &set {
                    apply_fault(&mut img, f, &history);
                    hist::fault(match f {
                        Fault::BitFlip { .. } => "bit_flip",
                        Fault::ZeroPage { .. } => "zero_page",
                        Fault::SwapInBlock { .. } => "page_swap_within_block",
                        Fault::SwapAcrossBlocks { .. } => "page_swap_across_blocks",
                        Fault::Stale { .. } => "stale_page_generation",
                    });
                }
                simdev::set_image(img);
                simdev::DISK.with(|d| d.borrow_mut().inflight = 0);
                hist::ev("corrupt_begin", j as u64, set.len() as u64, 0);
                let keys = case.get("keys").max(1) as u64;
                shuttle::future::block_on(async move {
                    let mut h = Hyb { g: crate::hybscn::geo(&case), case: case.clone(), ctl: crate::hybscn::new_ctl(&case), cache: None, held: vec![] };
                    if !h.reopen().await {
                        return;
                    }
                    let cache = h.cache.clone().unwrap();
                    // (the full-index variant has hundreds of keys: the first, the last and those around the page
                    // boundary of the index are read)
                    let sample = case.get("focus_index") != 0;
                    for k in (0..keys).filter(|k| !sample || *k < 4 || *k + 4 >= keys || (166..=174).contains(k)) {
                        let code: u64 = match cache.get(&k).await {
                            Ok(Some(e)) => match check_value(e.value()) {
                                crate::types::Tagged::Ok { key, ver, .. } if key == k => ver as u64,
                                crate::types::Tagged::Ok { .. } => (u32::MAX - 3) as u64,
                                crate::types::Tagged::Garbage => (u32::MAX - 2) as u64,
                            },
                            Ok(None) => u32::MAX as u64,
                            Err(_) => (u32::MAX - 1) as u64,
                        };
                        hist::ev("corrupt_get", j as u64, k, code);
                    }
                    hist::ev("corrupt_end", j as u64, 0, 0);
                    drop(cache);
                    crate::run::phase_done();
                    h.shutdown(false).await;
                });
            }),
        );
    }
}

pub fn c03_post(_case: &Case) {
    let evs = hist::events_clone();
    let versions: std::collections::BTreeMap<u64, std::collections::BTreeSet<u32>> =
        ST.with(|s| s.borrow().model.iter().map(|(k, m)| (*k, m.versions.keys().copied().collect())).collect());
    let mut hits = 0u64;
    for e in evs.iter().filter(|e| e.kind == "corrupt_get") {
        let (j, k, code) = (e.a, e.b, e.c);
        hist::probe("c03_lookup_judged");
        if code == (u32::MAX - 2) as u64 {
            hist::violation("C03", "garbage-deserialized", format!("fault set #{j}: lookup of key {k} returned bytes that no insert produced"), &[]);
        } else if code == (u32::MAX - 3) as u64 {
            hist::violation("C03", "foreign-value", format!("fault set #{j}: lookup of key {k} returned another key's value"), &[]);
        } else if code < (u32::MAX - 3) as u64 {
            hits += 1;
            if !versions.get(&k).map(|v| v.contains(&(code as u32))).unwrap_or(false) {
                hist::violation("C03", "garbage-deserialized", format!("fault set #{j}: lookup of key {k} returned unknown version v{code}"), &[]);
            }
        } else if code == (u32::MAX - 1) as u64 {
            hist::probe("c03_lookup_error");
        }
    }
    if hits > 0 {
        hist::set_nontrivial();
    }
}

// ---------------------------------------------------------------------------------------------------------------
// C07: what the flusher writes is exactly what recovery and lookups read back.

/// Ground truth from the write log: per block, the entries written since the block's last clean, by offset.
fn written_per_block(case: &Case) -> std::collections::BTreeMap<usize, Vec<crate::parser::Located>> {
    use crate::{parser, simdev};
    let g = crate::hybscn::geo(case);
    let first_block = if g.tomb { 1 } else { 0 };
    simdev::DISK.with(|d| {
        let d = d.borrow();
        let mut per: std::collections::BTreeMap<usize, std::collections::BTreeMap<usize, parser::Located>> = Default::default();
        for w in d.writes.iter().filter(|w| w.apply_seq.is_some() && w.part >= first_block) {
            if w.offset == 0 && w.data.len() == simdev::PAGE && w.data.iter().all(|b| *b == 0) {
                per.remove(&w.part);
                continue;
            }
            // index writes do not parse as entries (no entry magic at their start)
            for e in parser::parse_entries(&w.data) {
                if !e.checksum_ok {
                    continue;
                }
                per.entry(w.part).or_default().insert(
                    w.offset + e.at,
                    parser::Located { hash: e.header.hash, sequence: e.header.sequence, offset: w.offset + e.at, len: e.len },
                );
            }
        }
        per.into_iter().map(|(p, m)| (p, m.into_values().collect())).collect()
    })
}

/// Called at every quiescent point (after wait() returned, after reopen).
pub async fn c07_checkpoint(h: &mut Hyb, what: &'static str) {
    use crate::{parser, simdev};
    let case = h.case.clone();
    let Some(cache) = h.cache.clone() else { return };
    let g = crate::hybscn::geo(&case);
    let first_block = if g.tomb { 1 } else { 0 };
    let truth = written_per_block(&case);
    let img = simdev::image();
    hist::probe("c07_checkpoint");
    let mut newest: std::collections::BTreeMap<u64, (u64, usize, usize)> = Default::default();
    for (p, bytes) in img.iter().enumerate().skip(first_block) {
        let (located, problems) = parser::scan_block(bytes, g.blob_index_size);
        for pr in problems {
            hist::violation("C07", "layout-violation", format!("{what}: block {}: {pr}", p - first_block), &[]);
        }
        let want: Vec<parser::Located> = truth.get(&p).cloned().unwrap_or_default();
        if !located.is_empty() || !want.is_empty() {
            hist::probe("c07_block_compared");
        }
        if located != want {
            // first difference
            let i = located.iter().zip(want.iter()).position(|(a, b)| a != b).unwrap_or(located.len().min(want.len()));
            hist::violation(
                "C07",
                "scan-differs-from-written",
                format!(
                    "{what}: block {}: scanning the image finds {} entries, the write log says {} were written in this generation; first difference at #{i}: scanned {:?} vs written {:?}",
                    p - first_block,
                    located.len(),
                    want.len(),
                    located.get(i),
                    want.get(i)
                ),
                &[("blob_pages", case.get("blob_pages").to_string())],
            );
        }
        if located.len() >= 2 {
            hist::set_nontrivial();
        }
        for l in located {
            let e = newest.entry(l.hash).or_insert((l.sequence, p, l.offset));
            if l.sequence >= e.0 {
                *e = (l.sequence, p, l.offset);
            }
        }
    }
    // every key the disk tier claims to hold can actually be loaded
    let keys = case.get("keys").max(1) as u64;
    for k in 0..keys {
        if cache.storage().may_contains(&k) {
            hist::probe("c07_claimed_key_loaded");
            match cache.storage().load(&k).await {
                Ok(foyer::Load::Entry { key, value, .. }) => {
                    if key != k {
                        hist::violation("C07", "claimed-but-unloadable", format!("{what}: load of key {k} returned key {key}"), &[]);
                    } else if let crate::types::Tagged::Garbage = check_value(&value) {
                        hist::violation("C07", "claimed-but-unloadable", format!("{what}: load of key {k} returned garbage"), &[]);
                    }
                }
                Ok(foyer::Load::Piece { .. }) => {}
                Ok(foyer::Load::Miss) | Ok(foyer::Load::Throttled) => {
                    hist::violation(
                        "C07",
                        "claimed-but-unloadable",
                        format!("{what}: the disk tier claims to hold key {k} (may_contains) but loading it from the recorded position misses"),
                        &[],
                    );
                }
                Err(e) => {
                    hist::violation("C07", "claimed-but-unloadable", format!("{what}: load of key {k} failed: {e}"), &[]);
                }
            }
        }
    }
    // after a reopen, the converse: whatever the disk tier serves is the newest entry of that key which the format says
    // is alive in the image (a blob behind a sequence regression is a leftover of an earlier life of its block)
    if what == "after-reopen" {
        for k in 0..keys {
            if !cache.storage().may_contains(&k) {
                continue;
            }
            if let Ok(foyer::Load::Entry { key, value, .. }) = cache.storage().load(&k).await {
                if key != k {
                    continue;
                }
                let crate::types::Tagged::Ok { ver, .. } = check_value(&value) else { continue };
                hist::probe("c07_served_entry_checked_against_image");
                let alive = newest.get(&k).and_then(|(_, p, off)| parser::parse_entry_at(&img[*p], *off)).and_then(|e| match e.value {
                    Some(crate::types::Tagged::Ok { ver, .. }) => Some(ver),
                    _ => None,
                });
                let compressed = case.get("comp") != 0 && case.get("comp_real") != 0;
                if alive != Some(ver) && !(compressed && alive.is_none() && newest.contains_key(&k)) {
                    hist::violation(
                        "C07",
                        "recovered-but-not-alive-in-image",
                        format!("after-reopen: the disk tier serves key {k} v{ver}, but scanning the image by the format's rules finds {} as the newest live entry of that key", match alive { Some(v) => format!("v{v}"), None => "nothing".into() }),
                        &[],
                    );
                }
            }
        }
    }
    // after a reopen: every newest entry the image holds (not deleted since) is indexed and loads
    if what == "after-reopen" {
        let deleted: std::collections::BTreeSet<u64> = ST.with(|s| s.borrow().model.iter().filter(|(_, m)| m.cur.is_none()).map(|(k, _)| *k).collect());
        // tombstones in the log (deletes, and invalidations left by entries the flusher had to drop)
        let mut tomb: std::collections::BTreeMap<u64, u64> = Default::default();
        if g.tomb {
            for c in img[0].chunks_exact(16) {
                let (h, s) = (u64::from_be_bytes(c[0..8].try_into().unwrap()), u64::from_be_bytes(c[8..16].try_into().unwrap()));
                if s != 0 {
                    let e = tomb.entry(h).or_insert(0);
                    *e = (*e).max(s);
                }
            }
        }
        for (hash, (seq, _p, _off)) in newest {
            let k = hash; // identity hasher in C07 cases
            if k >= keys || deleted.contains(&k) || tomb.get(&hash).map(|t| *t >= seq).unwrap_or(false) {
                continue;
            }
            hist::probe("c07_recovered_key_checked");
            if !cache.storage().may_contains(&k) {
                hist::violation(
                    "C07",
                    "written-but-not-recovered",
                    format!("after-reopen: the image holds an intact newest entry of key {k} but recovery did not index it"),
                    &[("sequence_regression_in_a_block", block_has_sequence_regression(&case).to_string())],
                );
            }
        }
    }
}

// ---------------------------------------------------------------------------------------------------------------
// C09: reusing disk space never damages live entries and never stalls writers.

pub fn c09_post(case: &Case) {
    use crate::{parser, simdev};
    let g = crate::hybscn::geo(case);
    let first_block = if g.tomb { 1 } else { 0 };
    let evs = hist::events_clone();
    let writes: Vec<simdev::WriteRec> = simdev::DISK.with(|d| d.borrow().writes.clone());
    let is_clean = |w: &simdev::WriteRec| w.offset == 0 && w.data.len() == simdev::PAGE && w.data.iter().all(|b| *b == 0);
    // ---- device-level invariants, in application order
    let mut applied: Vec<&simdev::WriteRec> = writes.iter().filter(|w| w.apply_seq.is_some() && w.part >= first_block).collect();
    applied.sort_by_key(|w| w.apply_seq.unwrap());
    #[derive(Default, Clone)]
    struct Gen {
        data: Vec<(usize, usize)>,
        index: std::collections::BTreeMap<usize, Vec<parser::IndexEntry>>,
        first_write: Option<u64>,
        last_write: Option<u64>,
        fresh_after_clean: bool,
    }
    let mut gens: std::collections::BTreeMap<usize, Gen> = Default::default();
    // finished generations: (block, first_write, last_write, cleaned_at)
    let mut finished: Vec<(usize, u64, u64, u64)> = vec![];
    for w in &applied {
        let t = w.apply_seq.unwrap();
        let gen_ = gens.entry(w.part).or_default();
        if is_clean(w) {
            hist::probe("c09_clean");
            if let (Some(f), Some(l)) = (gen_.first_write, gen_.last_write) {
                finished.push((w.part, f, l, t));
            }
            *gen_ = Gen { fresh_after_clean: true, ..Default::default() };
            continue;
        }
        let entries = parser::parse_entries(&w.data);
        let as_index = if entries.is_empty() { parser::parse_blob_index(&w.data) } else { None };
        if gen_.fresh_after_clean {
            // the first write of a generation belongs to the blob at offset 0
            let ok = (as_index.is_some() && w.offset == 0) || (!entries.is_empty() && w.offset == g.blob_index_size);
            if !ok {
                hist::violation(
                    "C09",
                    "continuation-write-after-clean",
                    format!("block {} was cleaned (reclaimed) and the next write to it lands at offset {} instead of the start: it was reclaimed while being written", w.part - first_block, w.offset),
                    &[],
                );
            }
            gen_.fresh_after_clean = false;
        }
        // fill order is program (issue) order: completions of one batch's block writes may be reordered
        gen_.first_write = Some(gen_.first_write.map(|f| f.min(w.issue_seq)).unwrap_or(w.issue_seq));
        // "finished filling" = the device has acknowledged its last write: a block only becomes reclaimable when the io
        // task that wrote it has completed, and completions of different blocks' writes may overtake each other
        gen_.last_write = Some(gen_.last_write.map(|l| l.max(t)).unwrap_or(t));
        if let Some(idx) = as_index {
            // a blob index is only ever rewritten with a superset of its entries
            if let Some(old) = gen_.index.get(&w.offset) {
                if !old.iter().all(|o| idx.contains(o)) {
                    hist::violation(
                        "C09",
                        "blob-index-rewritten-with-different-entries",
                        format!("block {} blob at {}: the index was rewritten dropping entries it held ({} -> {} entries): two writers, or rewritten while live", w.part - first_block, w.offset, old.len(), idx.len()),
                        &[],
                    );
                }
            }
            gen_.index.insert(w.offset, idx);
        } else if !entries.is_empty() {
            hist::probe("c09_data_write_checked");
            let (s, e) = (w.offset, w.offset + w.data.len());
            if let Some((os, oe)) = gen_.data.iter().find(|(os, oe)| s < *oe && *os < e) {
                hist::violation(
                    "C09",
                    "data-overwritten-within-generation",
                    format!("block {}: bytes [{s}..{e}) were written although [{os}..{oe}) had been written since the block's last clean: a block handed to two writers or rewritten while live", w.part - first_block),
                    &[],
                );
            }
            gen_.data.push((s, e));
        }
    }
    // two in-flight writes to overlapping ranges of one block
    for (i, a) in writes.iter().enumerate() {
        if a.part < first_block {
            continue;
        }
        for b in writes.iter().skip(i + 1) {
            if b.part != a.part {
                continue;
            }
            let (a_end, b_end) = (a.apply_seq.unwrap_or(u64::MAX), b.apply_seq.unwrap_or(u64::MAX));
            let overlap_time = a.issue_seq < b_end && b.issue_seq < a_end;
            let overlap_range = a.offset < b.offset + b.data.len() && b.offset < a.offset + a.data.len();
            if overlap_time && overlap_range && a.generation == b.generation {
                hist::violation(
                    "C09",
                    "overlapping-in-flight-writes",
                    format!("block {}: writes #{} [{}+{}] and #{} [{}+{}] were in flight at the same time", a.part - first_block, a.idx, a.offset, a.data.len(), b.idx, b.offset, b.data.len()),
                    &[],
                );
            }
        }
    }
    if !finished.is_empty() {
        hist::set_nontrivial();
    }
    // ---- FIFO: without deletes (and without dropped updates) blocks are reclaimed oldest-filled first
    let no_invalidation = !evs.iter().any(|e| e.kind == "h_remove" || e.kind == "shed");
    // (with several flushers a block only becomes reclaimable when ITS flusher moves on, which the device cannot see:
    // the order is judged for single-flusher runs, where blocks fill strictly one after another)
    if no_invalidation && case.get("picker") == 0 && case.get("flushers") == 1 && case.get("reclaimers") <= 1 {
        for a in &finished {
            for b in &finished {
                // a was completely filled before b saw its first write, yet b was reclaimed first
                if a.2 < b.1 && b.3 < a.3 {
                    hist::probe("c09_fifo_pair");
                    // the default pickers put the invalid-ratio picker first: a block most of whose data has been
                    // superseded (overwritten, or copied away by a re-insertion) by the time it is reclaimed may go
                    // before an older one. Superseded = a higher sequence of the same hash was written before.
                    let ews = entry_writes();
                    let in_b: Vec<&EntryWrite> = ews.iter().filter(|w| w.part == b.0 && w.apply_seq.map(|x| x >= b.1 && x < b.3).unwrap_or(false)).collect();
                    let superseded: usize = in_b
                        .iter()
                        .filter(|w| ews.iter().any(|n| n.hash == w.hash && (n.sequence > w.sequence || (n.sequence == w.sequence && (n.part, n.offset) != (w.part, w.offset))) && n.issue_seq < b.3))
                        .map(|w| w.len.div_ceil(simdev::PAGE) * simdev::PAGE)
                        .sum();
                    if std::env::var("VERIF_DEBUG").is_ok() {
                        eprintln!("[fifo] block part {} gen [{}..{}): {} entries, superseded {} of block {}", b.0, b.1, b.3, in_b.len(), superseded, g.block_size);
                        for w in &in_b {
                            eprintln!("[fifo]   entry hash {} seq {} len {} apply {:?}", w.hash, w.sequence, w.len, w.apply_seq);
                        }
                    }
                    if superseded * 2 >= g.block_size {
                        hist::probe("c09_newer_block_mostly_invalid");
                        continue;
                    }
                    hist::violation(
                        "C09",
                        "not-oldest-first",
                        format!("block {} finished filling at {} before block {} was first written at {}, yet block {} was reclaimed first ({} < {})", a.0 - first_block, a.2, b.0 - first_block, b.1, b.0 - first_block, b.3, a.3),
                        &[],
                    );
                } else if a.2 < b.1 {
                    hist::probe("c09_fifo_pair");
                }
            }
        }
    }
    if let Ok(h) = std::env::var("VERIF_DUMP_HASH") {
        let h: u64 = h.parse().unwrap_or(0);
        for w in entry_writes().iter().filter(|w| w.hash == h) {
            eprintln!("[dump] entry hash {h} seq {} ver {:?} part {} off {} issue@{} apply@{:?}", w.sequence, w.ver, w.part, w.offset, w.issue_seq, w.apply_seq);
        }
        for w in applied.iter().filter(|w| is_clean(w)) {
            eprintln!("[dump] clean part {} apply@{:?}", w.part, w.apply_seq);
        }
        for e in evs.iter().filter(|e| (e.kind == "shed_reinsertion" || e.kind == "enqueue" || e.kind == "shed" || e.kind == "sweep_get") && e.a == h) {
            eprintln!("[dump] ev #{} {} {} {} {}", e.seq, e.kind, e.a, e.b, e.c);
        }
    }
    // ---- liveness: the final wait()/close() returned (a hang is reported by the runtime as deadlock / step bound)
    if evs.iter().any(|e| e.kind == "close_ret") {
        hist::probe("c09_close_returned");
    }
    // ---- reinsertion: entries selected by the reinsertion filter survive their block's reclaim
    let m = case.get("reinsert_mod").max(0) as u64;
    if m > 0 {
        let ew = entry_writes();
        let model = ST.with(|s| s.borrow().model.clone());
        let final_reads: std::collections::BTreeMap<u64, (u64, u64)> = evs.iter().filter(|e| e.kind == "sweep_get").map(|e| (e.a, (e.b, e.c))).collect();
        let hmode = case.get("hmode") as u8;
        for (k, km) in model.iter() {
            let h = crate::hybscn::hash_of(hmode, *k);
            if h % m != 0 {
                continue;
            }
            let Some(cur) = km.cur else { continue };
            let flushed = ew.iter().any(|w| w.key == Some(*k) && w.ver == Some(cur) && w.apply_seq.is_some());
            let excused = evs.iter().any(|e| (e.kind == "shed_reinsertion" || e.kind == "shed") && e.a == h);
            if !flushed || excused {
                continue;
            }
            // was its block reclaimed at all after it was written?
            let Some(wrote) = ew.iter().filter(|w| w.key == Some(*k) && w.ver == Some(cur)).filter_map(|w| w.apply_seq.map(|a| (a, w.part))).min() else { continue };
            let reclaimed = applied.iter().any(|w| w.part == wrote.1 && is_clean(w) && w.apply_seq.unwrap() > wrote.0);
            if !reclaimed {
                continue;
            }
            hist::probe("c09_reinsertion_checked");
            if let Some((got, tag)) = final_reads.get(k) {
                if *tag != Res::HIT as u64 || *got as u32 != cur {
                    // classification aid: was the entry's old position read after its block had been cleaned and before a
                    // re-inserted copy of it was written? (such a lookup drops the index entry, and the pending
                    // re-insertion is then skipped)
                    let first = ew.iter().filter(|w| w.key == Some(*k) && w.ver == Some(cur)).min_by_key(|w| w.apply_seq.unwrap_or(u64::MAX)).cloned();
                    let raced = first
                        .map(|f| {
                            let clean_at = applied.iter().filter(|w| w.part == f.part && is_clean(w) && w.apply_seq.unwrap() > f.apply_seq.unwrap_or(0)).map(|w| w.apply_seq.unwrap()).min().unwrap_or(u64::MAX);
                            let copy_at = ew
                                .iter()
                                .filter(|w| w.hash == f.hash && w.sequence == f.sequence && (w.part, w.offset) != (f.part, f.offset))
                                .filter_map(|w| w.apply_seq)
                                .min()
                                .unwrap_or(u64::MAX);
                            evs.iter().any(|e| e.kind == "dev_read_issue" && e.a as usize == f.part && e.b as usize == f.offset && e.seq > clean_at && e.seq < copy_at)
                        })
                        .unwrap_or(false);
                    hist::violation(
                        "C09",
                        "reinsertion-lost",
                        format!("key {k} is selected by the reinsertion filter, its current version v{cur} was on disk when its block was reclaimed, nothing shed it, yet it is not loadable afterwards"),
                        &[("flushers", case.get("flushers").to_string()), ("old_position_read_after_clean_before_copy", raced.to_string())],
                    );
                }
            }
        }
    }
}
