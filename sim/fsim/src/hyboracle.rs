//! Property-specific end-of-workload phases and post-hoc oracles for the hybrid scenario.

use crate::{
    hist,
    hybscn::{Hyb, ST, judge},
    types::{Case, Op, Res},
};

/// Reads every key of the universe through the public API and judges what comes back.
pub async fn sweep(h: &mut Hyb, via: &'static str) -> Vec<Res> {
    let keys = h.case.get("keys").max(1) as u64;
    let mut out = vec![];
    let Some(cache) = h.cache.clone() else { return out };
    for k in 0..keys {
        match cache.get(&k).await {
            Ok(Some(e)) => {
                let r = judge(&h.case, k, e.value(), via);
                crate::hybscn::note_source(k, e.source());
                hist::ev("sweep_get", k, r.ver as u64, r.tag as u64);
                out.push(r);
            }
            Ok(None) => {
                hist::ev("sweep_get", k, 0, Res::MISS as u64);
                out.push(Res::miss());
            }
            Err(e) => {
                hist::ev("sweep_get", k, 0, Res::ERR as u64);
                out.push(Res::err(crate::memscn::err_kind(&e)));
            }
        }
    }
    out
}

pub async fn end_of_workload(h: &mut Hyb) {
    let prop = h.case.property.clone();
    match prop.as_str() {
        "C01" | "C17" => {
            if h.cache.is_some() && !ST.with(|s| s.borrow().closed) {
                let rs = sweep(h, "final-sweep").await;
                if rs.iter().any(|r| r.tag == Res::HIT) {
                    hist::probe("final_sweep_hit");
                }
            }
        }
        _ => {}
    }
}

pub fn post(_case: &Case) {
    let _ = Op::Clear;
}
