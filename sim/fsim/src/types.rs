//! Shared vocabulary: operations, cases, tagged keys/values, the controllable hasher.

use std::{
    collections::BTreeMap,
    hash::{BuildHasher, Hash, Hasher},
    sync::Arc,
};

use serde::{Deserialize, Serialize};

/// One client operation. Generated up front (so a case is an explicit, shrinkable object).
#[derive(Serialize, Deserialize, Clone, Debug, PartialEq)]
pub enum Op {
    /// insert / insert_with_properties. `loc`: 0 default, 1 in-memory only, 2 on-disk. `w`: weight (memory scenarios)
    /// or size class (hybrid scenarios). `hold`: keep the returned handle.
    Insert { k: u64, ver: u32, w: u32, loc: u8, hold: bool },
    Get { k: u64, hold: bool },
    /// get_or_fetch whose origin yields `yields` times and then returns version `ver` (or fails).
    Fetch { k: u64, ver: u32, w: u32, yields: u8, fail: bool, hold: bool },
    /// get_or_fetch whose caller gives up: the future is polled `polls` times and dropped if it has not resolved; foyer's
    /// fetch task carries on alone. The scenario then waits for it (the operation is logged as the fetch it amounts to).
    AbandonFetch { k: u64, ver: u32, w: u32, yields: u8, polls: u8 },
    /// single-client runs: a get_or_fetch of `k` is started (one poll), the same client inserts `k` explicitly (which
    /// closes the fetch round), drops the fetch future and waits for the orphaned fetch task. Logged as the insert.
    FetchThenInsert { k: u64, ver: u32, ins_ver: u32, w: u32, yields: u8 },
    Contains { k: u64 },
    Touch { k: u64 },
    Remove { k: u64 },
    Clear,
    Resize { cap: u32 },
    EvictAll,
    Flush,
    DropHandle { idx: u8 },
    CloneHandle { idx: u8 },
    /// hybrid: storage_writer(k).insert
    WriterInsert { k: u64, ver: u32, w: u32, force: bool },
    /// hybrid: storage().wait()
    Wait,
    /// hybrid: close()
    Close,
    /// hybrid: graceful close (if not closed), drop, runtime shutdown, reopen on the same image
    Reopen,
    /// store-level delete (C07/C10)
    Delete { k: u64 },
    /// scenario-specific control (see the scenario)
    Ctl { what: u8, arg: u64 },
    Yield { n: u8 },
}

#[derive(Serialize, Deserialize, Clone, Debug, PartialEq)]
pub struct Case {
    pub property: String,
    pub scenario: String,
    pub cfg: BTreeMap<String, i64>,
    pub clients: Vec<Vec<Op>>,
}

impl Case {
    pub fn get(&self, k: &str) -> i64 {
        *self.cfg.get(k).unwrap_or(&0)
    }
    pub fn ops_total(&self) -> usize {
        self.clients.iter().map(|c| c.len()).sum()
    }
}

/// Result of one executed operation (recorded with invoke/return sequence numbers).
#[derive(Clone, Debug, Default, PartialEq)]
pub struct Res {
    /// 0 none/unit, 1 hit, 2 miss, 3 true, 4 false, 5 error, 6 garbage/foreign (already reported)
    pub tag: u8,
    pub key: u64,
    pub ver: u32,
    pub w: u32,
    /// extra: source (1 outer, 2 memory, 3 disk) for fetches; error kind for errors
    pub aux: u64,
}

impl Res {
    pub const UNIT: u8 = 0;
    pub const HIT: u8 = 1;
    pub const MISS: u8 = 2;
    pub const TRUE: u8 = 3;
    pub const FALSE: u8 = 4;
    pub const ERR: u8 = 5;
    pub const BAD: u8 = 6;
    pub fn unit() -> Self {
        Res::default()
    }
    pub fn miss() -> Self {
        Res { tag: Self::MISS, ..Default::default() }
    }
    pub fn boolean(b: bool) -> Self {
        Res { tag: if b { Self::TRUE } else { Self::FALSE }, ..Default::default() }
    }
    pub fn err(kind: u64) -> Self {
        Res { tag: Self::ERR, aux: kind, ..Default::default() }
    }
    pub fn hit(key: u64, ver: u32, w: u32, aux: u64) -> Self {
        Res { tag: Self::HIT, key, ver, w, aux }
    }
}

#[derive(Clone, Debug)]
pub struct OpRec {
    pub client: usize,
    pub idx: usize,
    pub op: Op,
    pub inv: u64,
    pub ret: u64,
    pub res: Res,
}

// ---------------------------------------------------------------------------------------------------------------
// Controllable hasher: u64 keys hash to a function of the key chosen by the case, so shard placement and 64-bit
// collisions are inputs of the simulation rather than accidents.

#[derive(Clone, Debug, Default)]
pub struct SimHasher {
    /// 0: hash = key. 1: hash = key / 2 (keys 2i and 2i+1 collide on all 64 bits).
    /// 2: hash = key * 8 (all keys land in the same shard for shard counts dividing 8, hashes differ).
    pub mode: u8,
}

pub struct SimHasherState {
    mode: u8,
    acc: u64,
}

impl Hasher for SimHasherState {
    fn finish(&self) -> u64 {
        match self.mode {
            1 => self.acc / 2,
            2 => self.acc.wrapping_mul(8),
            _ => self.acc,
        }
    }
    fn write(&mut self, bytes: &[u8]) {
        for b in bytes {
            self.acc = self.acc.wrapping_mul(1099511628211).wrapping_add(*b as u64);
        }
    }
    fn write_u64(&mut self, i: u64) {
        self.acc = i;
    }
}

impl BuildHasher for SimHasher {
    type Hasher = SimHasherState;
    fn build_hasher(&self) -> SimHasherState {
        SimHasherState { mode: self.mode, acc: 0 }
    }
}

// ---------------------------------------------------------------------------------------------------------------
// Memory-scenario key and value: self-describing (key, version, weight) with an optional destructor hook (C16).

pub type DropHook = Arc<dyn Fn(&'static str, u64) + Send + Sync>;

pub struct MKey {
    pub k: u64,
    pub hook: Option<DropHook>,
}

impl MKey {
    pub fn plain(k: u64) -> Self {
        MKey { k, hook: None }
    }
}
impl Clone for MKey {
    fn clone(&self) -> Self {
        MKey { k: self.k, hook: self.hook.clone() }
    }
}
impl PartialEq for MKey {
    fn eq(&self, o: &Self) -> bool {
        self.k == o.k
    }
}
impl Eq for MKey {}
impl Hash for MKey {
    fn hash<H: Hasher>(&self, state: &mut H) {
        state.write_u64(self.k)
    }
}
impl std::fmt::Debug for MKey {
    fn fmt(&self, f: &mut std::fmt::Formatter<'_>) -> std::fmt::Result {
        write!(f, "K{}", self.k)
    }
}
impl Drop for MKey {
    fn drop(&mut self) {
        if let Some(h) = self.hook.take() {
            h("drop_key", self.k)
        }
    }
}

pub struct MVal {
    pub key: u64,
    pub ver: u32,
    pub w: u32,
    pub hook: Option<DropHook>,
}
impl std::fmt::Debug for MVal {
    fn fmt(&self, f: &mut std::fmt::Formatter<'_>) -> std::fmt::Result {
        write!(f, "V{}.{}", self.key, self.ver)
    }
}
impl Drop for MVal {
    fn drop(&mut self) {
        if let Some(h) = self.hook.take() {
            h("drop_val", self.key)
        }
    }
}

// ---------------------------------------------------------------------------------------------------------------
// Hybrid-scenario values: byte vectors that identify the write they came from, or are recognisably garbage.

const TAG_MAGIC: u32 = 0x7A67_F0E1;

/// Layout: magic(4) key(8) ver(4) len(4) fill...; fill byte i = f(key, ver, i). `len` is the total length.
/// Lengths below the 20-byte header are encoded as a truncated header whose remaining bytes are still checkable.
pub fn make_value(key: u64, ver: u32, len: usize, compressible: bool) -> Vec<u8> {
    let mut v = Vec::with_capacity(len.max(20));
    v.extend_from_slice(&TAG_MAGIC.to_le_bytes());
    v.extend_from_slice(&key.to_le_bytes());
    v.extend_from_slice(&ver.to_le_bytes());
    v.extend_from_slice(&(len.max(20) as u32).to_le_bytes());
    let mut x = crate::choice::mix2(key, ver as u64);
    while v.len() < len {
        if compressible {
            v.push((x & 0x3) as u8 + b'a');
            if v.len() % 64 == 0 {
                x = crate::choice::splitmix(x);
            }
        } else {
            x = crate::choice::splitmix(x);
            v.push(x as u8);
        }
    }
    // the compressible flag is recoverable from byte 20 pattern only probabilistically; store it in the header
    // high bit of len instead
    if compressible {
        let l = (len.max(20) as u32) | 0x8000_0000;
        v[16..20].copy_from_slice(&l.to_le_bytes());
    }
    v
}

#[derive(Debug, Clone, PartialEq, Eq)]
pub enum Tagged {
    Ok { key: u64, ver: u32, len: usize },
    Garbage,
}

pub fn check_value(v: &[u8]) -> Tagged {
    if v.len() < 20 {
        return Tagged::Garbage;
    }
    let magic = u32::from_le_bytes(v[0..4].try_into().unwrap());
    if magic != TAG_MAGIC {
        return Tagged::Garbage;
    }
    let key = u64::from_le_bytes(v[4..12].try_into().unwrap());
    let ver = u32::from_le_bytes(v[12..16].try_into().unwrap());
    let l = u32::from_le_bytes(v[16..20].try_into().unwrap());
    let compressible = l & 0x8000_0000 != 0;
    let len = (l & 0x7fff_ffff) as usize;
    if len != v.len() {
        return Tagged::Garbage;
    }
    let expect = make_value(key, ver, len, compressible);
    if expect != v {
        return Tagged::Garbage;
    }
    Tagged::Ok { key, ver, len }
}
