//! Case generators for the hybrid scenario.

use std::collections::BTreeMap;

use crate::{
    choice::Rng,
    types::{Case, Op},
};

pub fn base_cfg(rng: &mut Rng) -> BTreeMap<String, i64> {
    let mut c: BTreeMap<String, i64> = BTreeMap::new();
    let mut set = |k: &str, v: i64| {
        c.insert(k.to_string(), v);
    };
    set("policy", rng.below(2) as i64);
    set("algo", rng.below(5) as i64);
    set("variant", rng.below(2) as i64);
    set("mem_cap", 2 + rng.below(5) as i64);
    set("mem_shards", 1 + rng.below(2) as i64);
    set("block_pages", *rng.pick(&[8, 8, 12, 16]));
    set("blocks", 6 + rng.below(10) as i64);
    set("blob_pages", 1 + rng.below(2) as i64);
    set("flushers", 1 + rng.below(3) as i64);
    set("reclaimers", 1 + rng.below(2) as i64);
    set("clean_thr", 1 + rng.below(2) as i64);
    set("tomb", rng.below(2) as i64);
    set("comp", rng.below(3) as i64);
    set("idx_shards", 1 + rng.below(4) as i64);
    set("rec_conc", 1 + rng.below(4) as i64);
    set("hmode", 0);
    set("flush_on_close", 1);
    set("max_delay", rng.below(4) as i64);
    set("max_steps", 3_000_000);
    set("keys", 4 + rng.below(5) as i64);
    c
}

/// Ensures the flush buffer of each flusher can hold the largest entry the case may write.
pub fn fit_buffers(c: &mut BTreeMap<String, i64>, rng: &mut Rng, tight: bool) {
    let flushers = c["flushers"];
    let block_pages = c["block_pages"];
    let per = if tight { block_pages.min(4) + rng.below(3) as i64 } else { block_pages + rng.below(block_pages as usize) as i64 };
    c.insert("buf_pages".into(), per * flushers);
}

struct Mix {
    insert: u32,
    writer: u32,
    get: u32,
    fetch: u32,
    contains: u32,
    remove: u32,
    clear: u32,
    evict_all: u32,
    wait: u32,
    reopen: u32,
    yld: u32,
}

fn pick(rng: &mut Rng, table: &[(u32, u8)]) -> u8 {
    let total: u32 = table.iter().map(|t| t.0).sum();
    let mut x = rng.below(total.max(1) as usize) as u32;
    for (w, id) in table {
        if x < *w {
            return *id;
        }
        x -= *w;
    }
    table[0].1
}

fn gen_ops(rng: &mut Rng, n: usize, keys: u64, mix: &Mix, classes: &[u32], loc_of_key: &dyn Fn(u64) -> u8) -> Vec<Op> {
    let table = [
        (mix.insert, 0u8),
        (mix.writer, 1),
        (mix.get, 2),
        (mix.fetch, 3),
        (mix.contains, 4),
        (mix.remove, 5),
        (mix.clear, 6),
        (mix.evict_all, 7),
        (mix.wait, 8),
        (mix.reopen, 9),
        (mix.yld, 10),
    ];
    let mut ops = vec![];
    let mut reopens = 0;
    for _ in 0..n {
        let k = rng.below(keys as usize) as u64;
        let w = *rng.pick(classes);
        let op = match pick(rng, &table) {
            0 => Op::Insert { k, ver: 0, w, loc: loc_of_key(k), hold: rng.chance(1, 8) },
            1 => Op::WriterInsert { k, ver: 0, w, force: rng.chance(1, 2) },
            2 => Op::Get { k, hold: rng.chance(1, 10) },
            3 => Op::Fetch { k, ver: 0, w, yields: rng.below(3) as u8, fail: rng.chance(1, 12), hold: false },
            4 => Op::Contains { k },
            5 => Op::Remove { k },
            6 => Op::Clear,
            7 => Op::EvictAll,
            8 => Op::Wait,
            9 => {
                if reopens < 2 {
                    reopens += 1;
                    Op::Reopen
                } else {
                    Op::Wait
                }
            }
            _ => Op::Yield { n: 1 + rng.below(3) as u8 },
        };
        ops.push(op);
    }
    ops
}

pub fn generate(prop: &str, thorough: bool, rng: &mut Rng) -> Case {
    let mut cfg = base_cfg(rng);
    let scale = if thorough { 2 } else { 1 };
    let mut clients = vec![];
    match prop {
        "C01" | "C17" => {
            let keys = cfg["keys"] as u64;
            if prop == "C17" {
                cfg.insert("hmode".into(), if rng.chance(3, 4) { 1 } else { 2 });
                cfg.insert("keys".into(), 6);
            }
            let keys = if prop == "C17" { 6 } else { keys };
            let tight = rng.chance(1, 4);
            fit_buffers(&mut cfg, rng, tight);
            // each key has a fixed placement class for the whole run (alternating advice is outside the claim)
            let inmem_mod = if rng.chance(1, 3) { 3 } else { 0 };
            let ondisk_mod = if rng.chance(1, 3) { 4 } else { 0 };
            let loc = move |k: u64| -> u8 {
                if inmem_mod > 0 && k % inmem_mod == 1 {
                    1
                } else if ondisk_mod > 0 && k % ondisk_mod == 2 {
                    2
                } else {
                    0
                }
            };
            cfg.insert("inmem_mod".into(), inmem_mod as i64);
            cfg.insert("ondisk_mod".into(), ondisk_mod as i64);
            if rng.chance(1, 4) {
                cfg.insert("reject_mod".into(), 5);
            }
            if rng.chance(1, 4) {
                cfg.insert("reinsert_mod".into(), 2);
            }
            let classes: Vec<u32> = match rng.below(4) {
                0 => vec![0, 1, 1, 2, 3],
                1 => vec![1, 4, 4, 5],
                2 => vec![0, 1, 2, 3, 4, 5, 6],
                _ => vec![1, 1, 4],
            };
            // with values the disk tier has to drop in the mix: half of these runs get a write-queue threshold of a few
            // entries (the overload exclusion must only apply under real overload)
            if classes.contains(&6) && rng.chance(1, 2) {
                cfg.insert("submit_thr_pages".into(), 16 + rng.below(40) as i64);
            }
            let mix = Mix {
                insert: 38,
                writer: if ondisk_mod > 0 { 0 } else { 4 },
                get: 30,
                fetch: 8,
                contains: 2,
                remove: 8,
                clear: if rng.chance(1, 3) { 2 } else { 0 },
                evict_all: 5,
                wait: 5,
                reopen: if rng.chance(1, 2) { 3 } else { 0 },
                yld: 4,
            };
            let n = (12 + rng.below(36)) * scale;
            let mut ops = gen_ops(rng, n, keys, &mix, &classes, &loc);
            // writer inserts are disk-only placements: only for keys of the default class would that alternate advice
            for op in ops.iter_mut() {
                if let Op::WriterInsert { k, .. } = op {
                    if loc(*k) != 0 {
                        *op = Op::Get { k: *k, hold: false };
                    }
                }
            }
            // a key written through the storage writer is a disk-placed key from then on: keep such keys apart
            let writer_keys: Vec<u64> = ops.iter().filter_map(|o| if let Op::WriterInsert { k, .. } = o { Some(*k) } else { None }).collect();
            for op in ops.iter_mut() {
                match op {
                    Op::Insert { k, loc, .. } if writer_keys.contains(k) => *loc = 2,
                    Op::Fetch { k, .. } if writer_keys.contains(k) => *op = Op::Get { k: *k, hold: false },
                    _ => {}
                }
            }
            // a disk-only entry is handed to the disk tier when its handle is dropped: never keep those handles
            for op in ops.iter_mut() {
                if let Op::Insert { loc: 2, hold, .. } = op {
                    *hold = false;
                }
            }
            // abandoned lookups: the caller drops a lookup future after a few polls and goes on (often with an update of
            // the same key) while foyer's fetch task is still loading the older version
            if rng.chance(2, 5) {
                for _ in 0..1 + rng.below(3) {
                    let at = rng.below(ops.len() + 1);
                    let k = match ops.get(at) {
                        Some(Op::Insert { k, .. }) | Some(Op::Remove { k }) | Some(Op::Get { k, .. }) if rng.chance(3, 4) => *k,
                        _ => rng.below(keys as usize) as u64,
                    };
                    ops.insert(at, Op::Ctl { what: 21, arg: k | ((rng.below(4) as u64) << 16) });
                }
            }
            // flushing held for a stretch of operations: whatever is handed to the disk tier stays in its write queue
            // (lookups are then served from the queue; removes and updates meet queued, not yet indexed versions)
            if rng.chance(1, 3) {
                let at = rng.below(ops.len() + 1);
                ops.insert(at, Op::Ctl { what: 13, arg: 1 });
                let off = (at + 2 + rng.below(6)).min(ops.len());
                ops.insert(off, Op::Ctl { what: 13, arg: 0 });
            }
            // a second foreground client on its own keys, concurrent with the first (no restarts then: both share the store)
            let with_b = prop == "C01" && rng.chance(1, 2);
            if with_b {
                for op in ops.iter_mut() {
                    // (clear() would also hit the second client's keys in the middle of its operations: its per-key
                    // histories would no longer be sequential, which is what the value oracle judges)
                    if matches!(op, Op::Reopen | Op::Close | Op::Clear | Op::Ctl { what: 30, .. }) {
                        *op = Op::Wait;
                    }
                }
            }
            clients.push(ops);
            if with_b {
                cfg.insert("client_b".into(), 1);
                let mut ops_b = vec![];
                for _ in 0..6 + rng.below(16) {
                    let k = keys + rng.below(2) as u64;
                    ops_b.push(match rng.below(20) {
                        0..=11 => Op::Insert { k, ver: 0, w: *rng.pick(&[0u32, 1, 1, 4]), loc: 0, hold: false },
                        12..=15 => Op::Get { k, hold: false },
                        16..=17 => Op::Remove { k },
                        _ => Op::Yield { n: 1 + rng.below(3) as u8 },
                    });
                }
                clients.push(ops_b);
            }
        }
        "C12" if rng.chance(1, 6) => {
            // wrap variant: a small device is overwritten one to three times (blocks are reclaimed and reused) with a FIFO
            // picker that keeps a third of the blocks on probation; then every key is looked up on disk, evicted and
            // looked up again: only hits in blocks that are on probation at that time may be rewritten
            cfg.insert("comp".into(), 0);
            let keys = 8 + rng.below(5) as u64;
            cfg.insert("keys".into(), keys as i64);
            cfg.insert("policy".into(), 0);
            cfg.insert("mem_cap".into(), 2 + rng.below(2) as i64);
            cfg.insert("flush_on_close".into(), 1);
            cfg.insert("blocks".into(), 6 + rng.below(4) as i64);
            cfg.insert("block_pages".into(), 8);
            cfg.insert("clean_thr".into(), 1);
            cfg.insert("flushers".into(), 1);
            cfg.insert("reclaimers".into(), 1);
            cfg.insert("picker".into(), 3);
            cfg.insert("inmem_mod".into(), 0);
            cfg.insert("ondisk_mod".into(), 0);
            cfg.insert("tomb".into(), 0);
            fit_buffers(&mut cfg, rng, false);
            let pages = cfg["blocks"] as usize * 7;
            let n = pages + rng.below(2 * pages);
            let mut ops = vec![];
            for i in 0..n {
                ops.push(Op::Insert { k: rng.below(keys as usize) as u64, ver: 0, w: 1, loc: 0, hold: false });
                if i % 16 == 15 {
                    ops.push(Op::Wait);
                }
            }
            ops.push(Op::EvictAll);
            ops.push(Op::Wait);
            for round in 0..2 {
                for k in 0..keys {
                    ops.push(Op::Get { k, hold: false });
                }
                if round == 0 {
                    ops.push(Op::EvictAll);
                    ops.push(Op::Wait);
                }
            }
            ops.push(Op::Wait);
            clients.push(ops);
        }
        "C12" => {
            cfg.insert("comp".into(), 0);
            let keys = 4 + rng.below(3) as u64;
            cfg.insert("keys".into(), keys as i64);
            cfg.insert("mem_cap".into(), 2 + rng.below(3) as i64);
            cfg.insert("flush_on_close".into(), rng.below(2) as i64);
            cfg.insert("blocks".into(), if rng.chance(1, 2) { 4 + rng.below(3) as i64 } else { 8 + rng.below(8) as i64 });
            cfg.insert("clean_thr".into(), 1 + rng.below(2) as i64);
            cfg.insert("picker".into(), *rng.pick(&[0i64, 0, 1, 1, 3, 3]));
            fit_buffers(&mut cfg, rng, false);
            let inmem_mod = if rng.chance(1, 2) { 3 } else { 0 };
            let ondisk_mod = if rng.chance(1, 2) { 4 } else { 0 };
            cfg.insert("inmem_mod".into(), inmem_mod as i64);
            cfg.insert("ondisk_mod".into(), ondisk_mod as i64);
            match rng.below(6) {
                0 => {
                    cfg.insert("admit_mode".into(), 1);
                }
                1 => {
                    cfg.insert("admit_mode".into(), 2);
                }
                2 => {
                    cfg.insert("reject_mod".into(), 5);
                }
                _ => {}
            }
            let loc = move |k: u64| -> u8 {
                if inmem_mod > 0 && k % inmem_mod == 1 {
                    1
                } else if ondisk_mod > 0 && k % ondisk_mod == 2 {
                    2
                } else {
                    0
                }
            };
            let mix = Mix { insert: 35, writer: 0, get: 25, fetch: 12, contains: 0, remove: 3, clear: 0, evict_all: 8, wait: 10, reopen: 2, yld: 3 };
            let n = (6 + rng.below(20)) * scale;
            let classes = if rng.chance(1, 3) { vec![1, 4] } else { vec![1, 1, 0] };
            let mut ops = gen_ops(rng, n, keys, &mix, &classes, &loc);
            for op in ops.iter_mut() {
                if let Op::Insert { loc: 2, hold, .. } = op {
                    *hold = false;
                }
            }
            // held fetches: the origin must wait for the disk lookup
            if rng.chance(1, 3) {
                let at = rng.below(ops.len() + 1);
                ops.insert(at, Op::Ctl { what: 20, arg: rng.below(keys as usize) as u64 });
            }
            ops.push(Op::Wait);
            if rng.chance(1, 2) {
                ops.push(Op::Close);
            }
            clients.push(ops);
        }
        "C15" => {
            let keys = 4 + rng.below(4) as u64;
            cfg.insert("keys".into(), keys as i64);
            cfg.insert("fresh_keys".into(), 3);
            cfg.insert("mem_cap".into(), 2 + rng.below(6) as i64);
            cfg.insert("flush_on_close".into(), if rng.chance(3, 4) { 1 } else { 0 });
            cfg.insert("blocks".into(), 14 + rng.below(8) as i64);
            cfg.insert("block_pages".into(), 16);
            cfg.insert("buf_pages".into(), 48 * cfg["flushers"]);
            let inmem_mod = if rng.chance(1, 3) { 3 } else { 0 };
            cfg.insert("inmem_mod".into(), inmem_mod as i64);
            cfg.insert("ondisk_mod".into(), 0);
            if rng.chance(1, 5) {
                cfg.insert("reject_mod".into(), 5);
            }
            let loc = move |k: u64| -> u8 { if inmem_mod > 0 && k % inmem_mod == 1 { 1 } else { 0 } };
            let mix = Mix { insert: 45, writer: 0, get: 25, fetch: 8, contains: 0, remove: 6, clear: 0, evict_all: 6, wait: 6, reopen: 0, yld: 4 };
            let n = rng.below(20) * scale;
            // a quarter of the runs: values the disk tier has to drop (larger than a block) among the others, and a write
            // queue threshold of a few entries (the documented overload limits must only bite under real overload)
            let overload = rng.chance(1, 4);
            let classes = if overload { vec![0, 1, 1, 2, 4, 6, 6] } else { vec![0, 1, 1, 2, 4] };
            if overload {
                cfg.insert("submit_thr_pages".into(), 18 + rng.below(30) as i64);
            }
            let mut ops = gen_ops(rng, n, keys, &mix, &classes, &loc);
            let allow_hold = rng.chance(1, 3);
            for op in ops.iter_mut() {
                if let Op::Insert { hold, .. } = op {
                    *hold = false;
                }
                if let Op::Get { hold, .. } = op {
                    *hold = *hold && allow_hold;
                }
            }
            // a fifth of the runs: no close() at all - the last handle is simply dropped (foyer then closes, and flushes
            // if configured so, in the background), and the store is reopened
            if rng.chance(1, 5) {
                ops.push(Op::Ctl { what: 31, arg: 0 });
                clients.push(ops);
                return Case { property: prop.to_string(), scenario: "hyb".into(), cfg, clients };
            }
            ops.push(Op::Close);
            // writes after close only touch fresh keys (they must be ignored, not corrupt anything)
            let extra = rng.below(4);
            for _ in 0..extra {
                let k = keys + rng.below(3) as u64;
                ops.push(match rng.below(3) {
                    0 => Op::Insert { k, ver: 0, w: 1, loc: 0, hold: false },
                    1 => Op::Remove { k },
                    _ => Op::Close,
                });
            }
            ops.push(Op::Reopen);
            clients.push(ops);
        }
        "C10" if rng.chance(1, 4) => {
            // wrap variant: a one-page tombstone log (256 slots) that wraps. Deletions beyond the log's capacity are
            // outside the claim (removed values may come back; `wrap` excuses those), but "a later insert of the key
            // is not hidden by the old tombstone" still holds: keys deleted in one life and re-inserted and flushed in
            // the next must be readable in the life after that.
            let keys = 8 + rng.below(9) as u64;
            cfg.insert("keys".into(), keys as i64);
            cfg.insert("tomb".into(), 1);
            cfg.insert("policy".into(), 1);
            cfg.insert("comp".into(), 0);
            cfg.insert("wrap".into(), 1);
            cfg.insert("block_pages".into(), 8);
            cfg.insert("blocks".into(), 24 + rng.below(7) as i64);
            cfg.insert("mem_cap".into(), 4);
            cfg.insert("mem_shards".into(), 1);
            cfg.insert("inmem_mod".into(), 0);
            cfg.insert("ondisk_mod".into(), 0);
            cfg.insert("max_steps".into(), 20_000_000);
            if rng.chance(1, 2) {
                cfg.insert("flushers".into(), 1);
            }
            fit_buffers(&mut cfg, rng, false);
            let mut ops = vec![];
            for k in 0..keys {
                ops.push(Op::Insert { k, ver: 0, w: (k % 2) as u32, loc: 0, hold: false });
            }
            ops.push(Op::Wait);
            let mut filler = 1000u64;
            let mut deleted: Vec<u64> = vec![];
            for cycle in 0..2 + rng.below(2) {
                // keys deleted in an earlier life come back
                for k in deleted.drain(..) {
                    if rng.chance(3, 4) {
                        ops.push(Op::Insert { k, ver: 0, w: 1, loc: 0, hold: false });
                    }
                }
                let n = if cycle == 0 { 230 + rng.below(120) } else { [0usize, 20, 150, 280][rng.below(4)] };
                for _ in 0..n {
                    ops.push(Op::Delete { k: filler });
                    filler += 1;
                }
                for _ in 0..1 + rng.below(4) {
                    let k = rng.below(keys as usize) as u64;
                    ops.push(if rng.chance(1, 2) { Op::Remove { k } } else { Op::Delete { k } });
                    if !deleted.contains(&k) {
                        deleted.push(k);
                    }
                }
                for _ in 0..rng.below(40) {
                    ops.push(Op::Delete { k: filler });
                    filler += 1;
                }
                ops.push(Op::Wait);
                ops.push(if rng.chance(2, 3) { Op::Reopen } else { Op::Ctl { what: 30, arg: 0 } });
            }
            for k in deleted.drain(..) {
                ops.push(Op::Insert { k, ver: 0, w: 1, loc: 0, hold: false });
            }
            ops.push(Op::Wait);
            ops.push(Op::Reopen);
            clients.push(ops);
        }
        "C10" => {
            let keys = 16 + rng.below(32) as u64;
            cfg.insert("keys".into(), keys as i64);
            cfg.insert("tomb".into(), 1);
            cfg.insert("policy".into(), 1);
            cfg.insert("comp".into(), 0);
            cfg.insert("block_pages".into(), 8);
            // 2 .. 4 pages of tombstone log
            cfg.insert("blocks".into(), *rng.pick(&[34, 48, 64, 64, 96]));
            cfg.insert("mem_cap".into(), 4);
            cfg.insert("mem_shards".into(), 1);
            cfg.insert("inmem_mod".into(), 0);
            cfg.insert("ondisk_mod".into(), 0);
            cfg.insert("max_steps".into(), 20_000_000);
            if rng.chance(1, 2) {
                cfg.insert("flushers".into(), 1);
            }
            fit_buffers(&mut cfg, rng, false);
            let capacity_slots = {
                let pages = cfg["blocks"] * 8;
                ((pages + 4) as usize).div_ceil(256) * 256
            };
            let mut ops = vec![];
            for k in 0..keys {
                ops.push(Op::Insert { k, ver: 0, w: (k % 2) as u32, loc: 0, hold: false });
            }
            ops.push(Op::Wait);
            let mut filler = 1000u64;
            let mut tombstones = 0usize;
            let cycles = 1 + rng.below(if thorough { 4 } else { 3 });
            for _ in 0..cycles {
                let budget = capacity_slots.saturating_sub(tombstones + 40);
                let n1 = [0usize, 3, 120, 250, 260, 300][rng.below(6)].min(budget / 2);
                for _ in 0..n1 {
                    ops.push(Op::Delete { k: filler });
                    filler += 1;
                }
                let real = 1 + rng.below(keys as usize / 2);
                for _ in 0..real {
                    let k = rng.below(keys as usize) as u64;
                    ops.push(if rng.chance(1, 2) { Op::Remove { k } } else { Op::Delete { k } });
                    if rng.chance(1, 3) {
                        ops.push(Op::Insert { k, ver: 0, w: 1, loc: 0, hold: false });
                    }
                    if rng.chance(1, 8) {
                        ops.push(Op::Get { k, hold: false });
                    }
                }
                let n2 = [0usize, 5, 100, 257][rng.below(4)].min(budget.saturating_sub(n1 + real) / 2);
                for _ in 0..n2 {
                    ops.push(Op::Delete { k: filler });
                    filler += 1;
                }
                tombstones += n1 + n2 + real;
                ops.push(Op::Wait);
                ops.push(if rng.chance(2, 3) { Op::Reopen } else { Op::Ctl { what: 30, arg: 0 } });
                if rng.chance(1, 3) {
                    for _ in 0..rng.below(6) {
                        ops.push(Op::Get { k: rng.below(keys as usize) as u64, hold: false });
                    }
                }
            }
            clients.push(ops);
        }
        "C06" | "C11" => {
            // hybrid round: clients 1.. are concurrent callers of 1-2 keys; client 0 is a sequential prelude
            let c11 = prop == "C11";
            let keys = 2u64;
            cfg.insert("keys".into(), keys as i64);
            cfg.insert("mem_cap".into(), 3 + rng.below(3) as i64);
            cfg.insert("mem_shards".into(), 1 + rng.below(2) as i64);
            cfg.insert("inmem_mod".into(), 0);
            cfg.insert("ondisk_mod".into(), 0);
            cfg.insert("blocks".into(), 10);
            cfg.insert("comp".into(), 0);
            fit_buffers(&mut cfg, rng, false);
            cfg.insert("hold_loads".into(), rng.below(2) as i64);
            cfg.insert("throttle_loads".into(), if rng.chance(1, 4) { 1 } else { 0 });
            cfg.insert("ctl_yields".into(), rng.below(8) as i64);
            if !c11 && rng.chance(1, 5) {
                cfg.insert("abort_fetch".into(), 1);
            }
            if rng.chance(1, 5) {
                cfg.insert("live_error".into(), 300);
                cfg.insert("live_corrupt".into(), 1);
            }
            let k = rng.below(keys as usize) as u64;
            // the round's key is advised on-disk in a third of the runs (fetched and inserted entries are then disk-only)
            if rng.chance(1, 3) {
                cfg.insert("ondisk_key".into(), k as i64 + 1);
            }
            // prelude: sometimes the key is already on disk (the disk lookup then hits), sometimes it sits in the disk
            // tier's write queue with flushing held for the whole round (the disk lookup then yields a queued piece)
            let mut prelude = vec![];
            match rng.below(5) {
                0 | 1 => {
                    prelude.push(Op::Insert { k, ver: 0, w: 1, loc: 2, hold: false });
                    prelude.push(Op::Wait);
                }
                2 => {
                    prelude.push(Op::Ctl { what: 13, arg: 1 });
                    prelude.push(Op::Insert { k, ver: 0, w: 1, loc: 2, hold: false });
                }
                _ => {}
            }
            clients.push(prelude);
            let callers = 2 + rng.below(4);
            let fail_pct = if rng.chance(1, 3) { 30 } else { 0 };
            for _ in 0..callers {
                let mut ops = vec![];
                if rng.chance(1, 3) {
                    ops.push(Op::Yield { n: 1 + rng.below(3) as u8 });
                }
                let kk = if rng.chance(4, 5) { k } else { 1 - k };
                if rng.chance(1, 4) {
                    ops.push(Op::Get { k: kk, hold: false });
                } else {
                    ops.push(Op::Fetch { k: kk, ver: 0, w: 1, yields: rng.below(4) as u8, fail: rng.chance(fail_pct, 100), hold: false });
                }
                clients.push(ops);
            }
            if !c11 && cfg["hold_loads"] == 1 && rng.chance(1, 2) {
                // one round for sure: a lookup-only caller and fetching callers register while the lookups are held
                clients.truncate(1);
                cfg.remove("abort_fetch");
                let order = rng.below(3);
                for i in 0..3 {
                    clients.push(vec![if i == order { Op::Get { k, hold: false } } else { Op::Fetch { k, ver: 0, w: 1, yields: rng.below(3) as u8, fail: false, hold: false } }]);
                }
                cfg.insert("ctl_yields".into(), 6 + rng.below(6) as i64);
            } else if c11 || rng.chance(1, 4) {
                let mut ops = vec![Op::Yield { n: 1 + rng.below(4) as u8 }];
                ops.push(if c11 || rng.chance(1, 2) { Op::Insert { k, ver: 0, w: 1, loc: 0, hold: false } } else { Op::Remove { k } });
                if rng.chance(1, 2) {
                    ops.push(Op::Get { k, hold: false });
                }
                // second round: the key leaves again and a new fetch round starts while the first may still be resolving
                if c11 && rng.chance(1, 3) {
                    ops.push(Op::Remove { k });
                    ops.push(Op::Fetch { k, ver: 0, w: 1, yields: rng.below(3) as u8, fail: false, hold: false });
                }
                clients.push(ops);
            }
        }
        "C16" => {
            // hybrid part of C16: storage filters and the listener check the lock count; the runtime reports deadlocks
            let keys = 4 + rng.below(3) as u64;
            cfg.insert("keys".into(), keys as i64);
            cfg.insert("check_locks".into(), 1);
            cfg.insert("inmem_mod".into(), 0);
            cfg.insert("ondisk_mod".into(), if rng.chance(1, 2) { 4 } else { 0 });
            cfg.insert("blocks".into(), 4 + rng.below(6) as i64);
            cfg.insert("block_pages".into(), 8);
            cfg.insert("reinsert_mod".into(), if rng.chance(1, 2) { 2 } else { 0 });
            cfg.insert("reject_mod".into(), if rng.chance(1, 3) { 5 } else { 0 });
            fit_buffers(&mut cfg, rng, false);
            let od = cfg["ondisk_mod"] as u64;
            let loc = move |k: u64| -> u8 { if od > 0 && k % od == 2 { 2 } else { 0 } };
            let mix = Mix { insert: 45, writer: 0, get: 25, fetch: 8, contains: 2, remove: 8, clear: 1, evict_all: 5, wait: 4, reopen: 1, yld: 2 };
            let n = (10 + rng.below(30)) * scale;
            let mut ops = gen_ops(rng, n, keys, &mix, &[1, 1, 4], &loc);
            for op in ops.iter_mut() {
                if let Op::Insert { loc: 2, hold, .. } = op {
                    *hold = false;
                }
            }
            clients.push(ops);
        }
        "C09" => {
            let keys = 8 + rng.below(9) as u64;
            cfg.insert("keys".into(), keys as i64);
            cfg.insert("policy".into(), 1);
            cfg.insert("tomb".into(), 0);
            cfg.insert("mem_cap".into(), 2 + rng.below(3) as i64);
            cfg.insert("inmem_mod".into(), 0);
            cfg.insert("ondisk_mod".into(), 0);
            cfg.insert("block_pages".into(), 8);
            let flushers = 1 + rng.below(3) as i64;
            let clean_thr = 1 + rng.below(2) as i64;
            cfg.insert("flushers".into(), flushers);
            cfg.insert("clean_thr".into(), clean_thr);
            // down to the smallest configuration the engine accepts without warning
            let min_blocks = 2 * (flushers + clean_thr);
            cfg.insert("blocks".into(), min_blocks + rng.below(5) as i64);
            cfg.insert("reclaimers".into(), 1 + rng.below(2) as i64);
            cfg.insert("reinsert_mod".into(), if rng.chance(1, 2) { 3 } else { 0 });
            cfg.insert("picker".into(), 0);
            cfg.insert("max_steps".into(), 30_000_000);
            let tight = rng.chance(1, 4);
            fit_buffers(&mut cfg, rng, tight);
            let with_deletes = rng.chance(1, 2);
            let capacity_pages = (cfg["blocks"] * 8) as usize;
            let target_pages = capacity_pages * (3 + rng.below(if thorough { 6 } else { 4 }));
            let mut ops = vec![];
            let mut pages = 0usize;
            while pages < target_pages {
                let k = rng.below(keys as usize) as u64;
                match rng.below(20) {
                    0..=13 => {
                        let p = 1 + rng.below(3) as u32;
                        pages += p as usize;
                        ops.push(Op::Insert { k, ver: 0, w: 100 + p, loc: 0, hold: false });
                    }
                    14 | 15 => ops.push(Op::Get { k, hold: false }),
                    16 => {
                        if with_deletes {
                            ops.push(Op::Remove { k })
                        } else {
                            ops.push(Op::Get { k, hold: false })
                        }
                    }
                    17 => ops.push(Op::Wait),
                    18 => ops.push(Op::Yield { n: 1 + rng.below(3) as u8 }),
                    _ => ops.push(Op::EvictAll),
                }
            }
            clients.push(ops);
        }
        "C08" => {
            cfg.insert("tp".into(), if rng.chance(2, 3) { rng.below(4) as i64 } else { 4 + rng.below(15) as i64 });
            cfg.insert("items".into(), (4 + rng.below(14)) as i64 * scale as i64);
            cfg.insert("gen_seed".into(), rng.next() as i64 & 0xffff_ffff);
            cfg.insert("reopen".into(), rng.below(2) as i64);
            cfg.insert("mem_cap".into(), 2);
            cfg.insert("tomb".into(), 0);
            // a sixth of the runs: blocks of 256-384 KiB, so that values exceed the internal buffers of the stream
            // decoders (a decoder then hands the value back in several short reads)
            let big = rng.chance(1, 6);
            let bp = if big { *rng.pick(&[64i64, 96]) } else { *rng.pick(&[8i64, 8, 16]) };
            cfg.insert("block_pages".into(), bp);
            let ample = big || rng.chance(2, 3);
            cfg.insert("ample".into(), ample as i64);
            cfg.insert("blocks".into(), if big { 12 } else if ample { 40 } else { 4 + rng.below(4) as i64 });
            let flushers = cfg["flushers"];
            let per = match if big { 0 } else { rng.below(3) } {
                0 => bp * 3,
                1 => bp,
                _ => 2 + rng.below(bp as usize) as i64,
            };
            cfg.insert("buf_pages".into(), per * flushers);
            return Case { property: prop.to_string(), scenario: "c08".into(), cfg, clients: vec![vec![]] };
        }
        "C07" if rng.chance(1, if thorough { 10 } else { 25 }) => {
            // big-block variant: one-page entries in 1 MiB blocks, so that a blob index (170 entries per 4 KiB index)
            // fills up exactly, a second blob follows it in the same block, blocks are reclaimed and reused, and the new
            // data of a reused block ends exactly where the index of an old blob sits
            let per_block = 254u64; // 1 + 170 + 1 + 84 pages
            let long = rng.chance(1, 2);
            cfg.insert("policy".into(), 0);
            cfg.insert("mem_cap".into(), 2);
            cfg.insert("mem_shards".into(), 1);
            cfg.insert("inmem_mod".into(), 0);
            cfg.insert("ondisk_mod".into(), 0);
            cfg.insert("hmode".into(), 0);
            cfg.insert("comp".into(), 0);
            cfg.insert("tomb".into(), 0);
            cfg.insert("block_pages".into(), 256);
            cfg.insert("blob_pages".into(), 1);
            cfg.insert("blocks".into(), 4);
            cfg.insert("flushers".into(), 1);
            cfg.insert("reclaimers".into(), 1);
            cfg.insert("clean_thr".into(), 1);
            cfg.insert("buf_pages".into(), *rng.pick(&[64i64, 200, 300]));
            cfg.insert("max_steps".into(), 60_000_000);
            let total = if long { per_block * (4 + rng.below(2) as u64) + 170 + *rng.pick(&[0u64, 0, 0, 1, 2]) - *rng.pick(&[0u64, 0, 1]) } else { 170 + 10 + rng.below(60) as u64 };
            cfg.insert("keys".into(), total as i64);
            let mut ops = vec![];
            for k in 0..total {
                ops.push(Op::WriterInsert { k, ver: 0, w: 101, force: true });
                // a flush batch ends exactly where a blob index becomes full, and now and then elsewhere
                let in_block = k % per_block;
                if in_block == 169 || (k % 97 == 96) {
                    ops.push(Op::Ctl { what: 14, arg: 0 });
                }
            }
            ops.push(Op::Wait);
            ops.push(Op::Reopen);
            clients.push(ops);
        }
        "C07" => {
            let c08 = false;
            let keys = 6 + rng.below(6) as u64;
            cfg.insert("keys".into(), keys as i64);
            cfg.insert("policy".into(), 0);
            cfg.insert("mem_cap".into(), 2 + rng.below(3) as i64);
            cfg.insert("inmem_mod".into(), 0);
            cfg.insert("ondisk_mod".into(), 0);
            cfg.insert("hmode".into(), 0);
            if !c08 {
                cfg.insert("comp".into(), if rng.chance(3, 4) { 0 } else { 1 + rng.below(2) as i64 });
            }
            let bp = *rng.pick(&[8i64, 8, 12, 16, 32]);
            cfg.insert("block_pages".into(), bp);
            cfg.insert("blocks".into(), if rng.chance(1, 2) { 4 + rng.below(4) as i64 } else { 10 + rng.below(10) as i64 });
            // buffers: sometimes several blocks worth (one batch spans blocks), sometimes barely one entry
            let flushers = cfg["flushers"];
            let per = match rng.below(3) {
                0 => bp * 3,
                1 => bp,
                _ => bp + rng.below(bp as usize) as i64,
            };
            cfg.insert("buf_pages".into(), per * flushers);
            let max_pages = (bp - cfg["blob_pages"]) as u32;
            let mut ops = vec![];
            let n = (10 + rng.below(40)) * scale;
            for _ in 0..n {
                let k = rng.below(keys as usize) as u64;
                let pages = match rng.below(6) {
                    0 => max_pages,
                    1 => max_pages + 1,
                    2 => 1,
                    _ => 1 + rng.below(max_pages as usize) as u32,
                };
                match rng.below(20) {
                    0..=12 => ops.push(Op::WriterInsert { k, ver: 0, w: 100 + pages, force: true }),
                    13 | 14 => ops.push(Op::Wait),
                    15 => ops.push(Op::Delete { k }),
                    16 => ops.push(Op::Get { k, hold: false }),
                    17 => ops.push(Op::Yield { n: 1 + rng.below(3) as u8 }),
                    18 => {
                        if rng.chance(1, 3) {
                            ops.push(Op::Wait);
                            ops.push(Op::Reopen);
                        }
                    }
                    _ => ops.push(Op::Insert { k, ver: 0, w: 100 + pages.min(2), loc: 2, hold: false }),
                }
            }
            ops.push(Op::Wait);
            if rng.chance(1, 2) {
                ops.push(Op::Reopen);
            }
            clients.push(ops);
        }
        "C03" if rng.chance(1, if thorough { 15 } else { 50 }) => {
            // full-index variant: a two-page blob index filled completely (340 one-page entries in one blob of a 1.5 MiB
            // block), so that damage to the count / the last index entries is at the very edge of the index buffer
            let n = 340 + rng.below(3) as u64;
            cfg.insert("keys".into(), n as i64);
            cfg.insert("thorough".into(), thorough as i64);
            cfg.insert("focus_index".into(), 1);
            cfg.insert("policy".into(), 1);
            cfg.insert("mem_cap".into(), 2);
            cfg.insert("mem_shards".into(), 1);
            cfg.insert("blocks".into(), 3);
            cfg.insert("block_pages".into(), 384);
            cfg.insert("blob_pages".into(), 2);
            cfg.insert("flushers".into(), 1);
            cfg.insert("reclaimers".into(), 1);
            cfg.insert("clean_thr".into(), 1);
            cfg.insert("comp".into(), 0);
            cfg.insert("tomb".into(), 0);
            cfg.insert("inmem_mod".into(), 0);
            cfg.insert("ondisk_mod".into(), 0);
            cfg.insert("buf_pages".into(), 400);
            cfg.insert("max_steps".into(), 60_000_000);
            let mut ops = vec![];
            for k in 0..n {
                ops.push(Op::Insert { k, ver: 0, w: 0, loc: 0, hold: false });
                if k % 64 == 63 {
                    ops.push(Op::Wait);
                }
            }
            ops.push(Op::Wait);
            clients.push(ops);
        }
        "C03" => {
            let keys = 4 + rng.below(4) as u64;
            cfg.insert("keys".into(), keys as i64);
            cfg.insert("thorough".into(), thorough as i64);
            cfg.insert("mem_cap".into(), 2 + rng.below(3) as i64);
            // small devices so that reclaim leaves older generations behind
            cfg.insert("blocks".into(), 4 + rng.below(5) as i64);
            cfg.insert("block_pages".into(), 8);
            cfg.insert("inmem_mod".into(), 0);
            cfg.insert("ondisk_mod".into(), 0);
            fit_buffers(&mut cfg, rng, false);
            if rng.chance(1, 4) {
                // live corruption: reads return flipped / zeroed / misdirected bytes or fail while the store is running
                cfg.insert("live_corrupt".into(), 30 + rng.below(120) as i64);
                cfg.insert("live_error".into(), rng.below(60) as i64);
            }
            let loc = |_k: u64| -> u8 { 0 };
            let mix = Mix { insert: 50, writer: 0, get: 22, fetch: 5, contains: 0, remove: 8, clear: 0, evict_all: 8, wait: 6, reopen: if cfg.contains_key("live_corrupt") { 2 } else { 0 }, yld: 2 };
            let classes = if rng.chance(1, 3) { vec![0, 1, 4] } else { vec![0, 1, 1, 2, 3] };
            let n = 10 + rng.below(if thorough { 40 } else { 30 });
            let mut ops = gen_ops(rng, n, keys, &mix, &classes, &loc);
            for op in ops.iter_mut() {
                match op {
                    Op::Insert { hold, .. } | Op::Get { hold, .. } => *hold = false,
                    _ => {}
                }
            }
            clients.push(ops);
        }
        "C04" => {
            if rng.chance(1, if thorough { 12 } else { 60 }) {
                // big-blob variant: one blob whose index spills into its second page (> 170 entries), then an in-place
                // rewrite of that two-page index; crash points are enumerated around the tail of the write log
                cfg.insert("keys".into(), 190);
                cfg.insert("thorough".into(), 1);
                cfg.insert("focus_tail".into(), 10);
                cfg.insert("policy".into(), 1);
                cfg.insert("mem_cap".into(), 4);
                cfg.insert("mem_shards".into(), 1);
                cfg.insert("blocks".into(), 4);
                cfg.insert("block_pages".into(), 256);
                cfg.insert("blob_pages".into(), 2);
                cfg.insert("flushers".into(), 1);
                cfg.insert("comp".into(), 0);
                cfg.insert("inmem_mod".into(), 0);
                cfg.insert("ondisk_mod".into(), 0);
                cfg.insert("buf_pages".into(), 300);
                cfg.insert("max_steps".into(), 30_000_000);
                let first = 168 + rng.below(8) as u64;
                let mut ops = vec![];
                for k in 0..first {
                    ops.push(Op::Insert { k, ver: 0, w: 0, loc: 0, hold: false });
                    if k % 50 == 49 {
                        ops.push(Op::Wait);
                    }
                }
                ops.push(Op::Wait);
                for k in first..(first + 2 + rng.below(8) as u64) {
                    ops.push(Op::Insert { k, ver: 0, w: 0, loc: 0, hold: false });
                    if rng.chance(1, 2) {
                        ops.push(Op::Wait);
                    }
                }
                ops.push(Op::Wait);
                clients.push(ops);
                return Case { property: prop.to_string(), scenario: "hyb".into(), cfg, clients };
            }
            let keys = 3 + rng.below(4) as u64;
            cfg.insert("keys".into(), keys as i64);
            cfg.insert("thorough".into(), thorough as i64);
            cfg.insert("mem_cap".into(), 2 + rng.below(3) as i64);
            // two sub-configurations: ample device (no reclaim: strong clause) and small device (reclaim: weak clause)
            if rng.chance(2, 3) {
                cfg.insert("blocks".into(), 16 + rng.below(8) as i64);
                cfg.insert("block_pages".into(), 16);
            } else {
                cfg.insert("blocks".into(), 4 + rng.below(3) as i64);
                cfg.insert("block_pages".into(), 8);
            }
            cfg.insert("inmem_mod".into(), 0);
            cfg.insert("ondisk_mod".into(), 0);
            cfg.insert("comp".into(), if rng.chance(2, 3) { 0 } else { 1 + rng.below(2) as i64 });
            fit_buffers(&mut cfg, rng, false);
            let loc = |_k: u64| -> u8 { 0 };
            let mix = Mix { insert: 50, writer: 3, get: 10, fetch: 4, contains: 0, remove: 12, clear: 0, evict_all: 8, wait: 12, reopen: 0, yld: 3 };
            let classes = if rng.chance(1, 4) { vec![0, 1, 4] } else { vec![0, 1, 1, 2] };
            let n = (6 + rng.below(if thorough { 30 } else { 22 })) * 1;
            let mut ops = gen_ops(rng, n, keys, &mix, &classes, &loc);
            for op in ops.iter_mut() {
                match op {
                    Op::Insert { hold, .. } | Op::Get { hold, .. } => *hold = false,
                    Op::WriterInsert { k, w, .. } => *op = Op::Insert { k: *k, ver: 0, w: *w, loc: 0, hold: false },
                    _ => {}
                }
            }
            // a twelfth of the runs: a long tail of deletes (keys outside the universe) around deletes of real keys, so
            // that the tombstone log crosses a page boundary (256 slots) within one flush; the device is large enough
            // for a two-page log, which these deletes do not fill
            // (off unless VERIF_C04_DELETE_HEAVY is set: the variant was added in the last hours and has not been through
            // the multi-seed sweeps; the draws are kept so that every other case stays what the sweeps validated)
            if rng.chance(1, 12) && std::env::var("VERIF_C04_DELETE_HEAVY").is_ok() {
                cfg.insert("tomb".into(), 1);
                cfg.insert("blocks".into(), 20 + rng.below(4) as i64);
                cfg.insert("block_pages".into(), 16);
                ops.push(Op::Wait);
                let mut filler = 1000u64;
                for _ in 0..238 + rng.below(12) {
                    ops.push(Op::Delete { k: filler });
                    filler += 1;
                }
                if rng.chance(1, 2) {
                    ops.push(Op::Wait);
                }
                for _ in 0..3 + rng.below(4) {
                    ops.push(Op::Remove { k: rng.below(keys as usize) as u64 });
                }
                for _ in 0..10 + rng.below(25) {
                    ops.push(Op::Delete { k: filler });
                    filler += 1;
                }
                ops.push(Op::Wait);
            }
            clients.push(ops);
            // second life (repeated crash / restart cycles): after the recovery on a crash image the store is used again
            // (clients[1]: inserts of new versions and deletes, then evict_all + wait), the process dies a second time
            // at a prefix of the writes of that second life, and the store is recovered once more
            if rng.chance(1, 2) {
                cfg.insert("second_life".into(), 1);
                // the second life writes to a device that may come back from the crash with every block in use: only
                // configurations the engine accepts without warning (flushers + clean-block threshold <= blocks / 2)
                // are guaranteed to make progress then (C09's stated bound)
                let need = 2 * (cfg["flushers"] + cfg["clean_thr"]);
                if cfg["blocks"] < need {
                    cfg.insert("blocks".into(), need);
                }
                let mut ops2 = vec![];
                for _ in 0..1 + rng.below(5) {
                    let k = rng.below(keys as usize) as u64;
                    if rng.chance(3, 4) {
                        ops2.push(Op::Insert { k, ver: 0, w: rng.below(2) as u32, loc: 0, hold: false });
                    } else {
                        ops2.push(Op::Remove { k });
                    }
                }
                clients.push(ops2);
            }
        }
        _ => panic!("hybgen: unknown property {prop}"),
    }
    Case { property: prop.to_string(), scenario: "hyb".into(), cfg, clients }
}
