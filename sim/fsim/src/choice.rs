//! Choice streams: every nondeterministic decision of a run is a draw from one of these recorded streams.
//!
//! `cfg` and `ops` generate the case (configuration knobs and the per-client operation lists) up front;
//! `sched` feeds the scheduler (which runnable task runs next); `io` feeds the simulated disk (which pending
//! operation completes next, fault decisions) and `shuttle::rand`. In replay mode the draws are read back from the
//! replay file (0 once exhausted), so a run is a pure function of (case, sched, io) and the code.

use std::cell::RefCell;

#[derive(Clone, Debug)]
pub struct Rng(pub u64);

impl Rng {
    pub fn new(seed: u64) -> Self {
        Rng(splitmix(seed ^ 0x9E37_79B9_7F4A_7C15))
    }
    pub fn next(&mut self) -> u64 {
        self.0 = self.0.wrapping_add(0x9E37_79B9_7F4A_7C15);
        let mut z = self.0;
        z = (z ^ (z >> 30)).wrapping_mul(0xBF58_476D_1CE4_E5B9);
        z = (z ^ (z >> 27)).wrapping_mul(0x94D0_49BB_1331_11EB);
        z ^ (z >> 31)
    }
    /// Uniform in [0, n).
    pub fn below(&mut self, n: usize) -> usize {
        if n <= 1 {
            return 0;
        }
        (self.next() % n as u64) as usize
    }
    pub fn chance(&mut self, num: usize, den: usize) -> bool {
        self.below(den) < num
    }
    pub fn pick<'a, T>(&mut self, xs: &'a [T]) -> &'a T {
        &xs[self.below(xs.len())]
    }
}

pub fn splitmix(x: u64) -> u64 {
    let mut z = x.wrapping_add(0x9E37_79B9_7F4A_7C15);
    z = (z ^ (z >> 30)).wrapping_mul(0xBF58_476D_1CE4_E5B9);
    z = (z ^ (z >> 27)).wrapping_mul(0x94D0_49BB_1331_11EB);
    z ^ (z >> 31)
}

pub fn mix2(a: u64, b: u64) -> u64 {
    splitmix(splitmix(a) ^ b.wrapping_mul(0xD6E8_FEB8_6659_FD93))
}

/// A recorded / replayed stream of bounded draws.
#[derive(Debug)]
pub struct Stream {
    rng: Rng,
    replay: Option<Vec<u32>>,
    pos: usize,
    pub record: Vec<u32>,
    /// probability (numerator of /64) that a draw returns 0 regardless of the PRNG ("keep going" bias).
    pub zero_bias: u32,
}

impl Stream {
    pub fn fresh(seed: u64) -> Self {
        Stream { rng: Rng::new(seed), replay: None, pos: 0, record: vec![], zero_bias: 0 }
    }
    pub fn replay(data: Vec<u32>) -> Self {
        Stream { rng: Rng::new(0), replay: Some(data), pos: 0, record: vec![], zero_bias: 0 }
    }
    /// Uniform draw in [0, n), recorded. In replay mode the recorded value is clamped to the range.
    pub fn draw(&mut self, n: usize) -> usize {
        let v = match &self.replay {
            Some(data) => {
                let v = data.get(self.pos).copied().unwrap_or(0) as usize;
                if n == 0 { 0 } else { v % n.max(1) }
            }
            None => {
                if n <= 1 {
                    0
                } else if self.zero_bias > 0 && (self.rng.next() % 64) < self.zero_bias as u64 {
                    0
                } else {
                    self.rng.below(n)
                }
            }
        };
        self.pos += 1;
        self.record.push(v as u32);
        v
    }
    pub fn draws(&self) -> usize {
        self.pos
    }
}

pub struct Streams {
    pub sched: Stream,
    pub io: Stream,
}

thread_local! {
    static STREAMS: RefCell<Option<Streams>> = const { RefCell::new(None) };
}

pub fn install(s: Streams) {
    STREAMS.with(|c| *c.borrow_mut() = Some(s));
}

pub fn take() -> Option<Streams> {
    STREAMS.with(|c| c.borrow_mut().take())
}

pub fn sched_draw(n: usize) -> usize {
    STREAMS.with(|c| c.borrow_mut().as_mut().expect("streams not installed").sched.draw(n))
}

pub fn io_draw(n: usize) -> usize {
    STREAMS.with(|c| c.borrow_mut().as_mut().expect("streams not installed").io.draw(n))
}

/// true with probability num/den, from the io stream.
pub fn io_chance(num: usize, den: usize) -> bool {
    io_draw(den) < num
}
