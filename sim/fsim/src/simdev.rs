//! Simulated device, partitions and io engine: an in-memory image that survives "process death", a total log of
//! issued/applied writes (with their bytes, so the image as of any prefix can be rebuilt), completion delays decided
//! by the io choice stream, and fault injection on reads.

use std::{
    any::Any,
    cell::RefCell,
    sync::{Arc, Mutex},
};

use foyer::{Device, IoEngine, IoEngineConfig, IoHandle, RawFile, Statistics, Throttle};
use foyer_common::error::{Error, ErrorKind, Result as FResult};
use foyer_storage::verif::{IoB, IoBuf, IoBufMut, IoEngineBuildContext, Partition, PartitionId};
use futures_util::FutureExt;

use crate::{choice, hist};

pub const PAGE: usize = 4096;

#[derive(Clone, Debug)]
pub struct WriteRec {
    /// issue order (index into `Disk::writes`)
    pub idx: usize,
    pub part: usize,
    pub offset: usize,
    pub data: Arc<Vec<u8>>,
    /// hist sequence number at issue
    pub issue_seq: u64,
    /// hist sequence number at application to the live image (None: never applied, e.g. task cancelled)
    pub apply_seq: Option<u64>,
    /// device generation (number of opens so far) that issued it
    pub generation: u32,
}

#[derive(Default)]
pub struct ReadFaults {
    /// corrupt the bytes returned by a live read with probability num/1000
    pub corrupt_per_mille: u32,
    /// fail a live read with an I/O error with probability num/1000
    pub error_per_mille: u32,
}

/// The persistent part: survives device re-creation within one simulated run.
#[derive(Default)]
pub struct Disk {
    /// live image, one byte vector per partition (partition i of a re-created device maps to region i)
    pub parts: Vec<Vec<u8>>,
    pub writes: Vec<WriteRec>,
    pub generation: u32,
    pub read_faults: ReadFaults,
    pub reads: u64,
    /// extra completion delay bound (draws in 0..=max_delay)
    pub max_delay: usize,
    /// operations issued and not yet completed
    pub inflight: i64,
}

thread_local! {
    /// One disk per simulated run (the run owns its OS thread).
    pub static DISK: RefCell<Disk> = RefCell::new(Disk::default());
}

pub fn reset_disk(max_delay: usize) {
    DISK.with(|d| {
        *d.borrow_mut() = Disk { max_delay, ..Default::default() };
    });
}

/// Replace the live image (used to boot a store on a crash image / a corrupted image).
pub fn set_image(parts: Vec<Vec<u8>>) {
    DISK.with(|d| d.borrow_mut().parts = parts);
}

pub fn image() -> Vec<Vec<u8>> {
    DISK.with(|d| d.borrow().parts.clone())
}

pub fn writes_len() -> usize {
    DISK.with(|d| d.borrow().writes.len())
}

#[derive(Debug)]
pub struct SimPartition {
    id: PartitionId,
    size: usize,
    stats: Arc<Statistics>,
}

impl Partition for SimPartition {
    fn id(&self) -> PartitionId {
        self.id
    }
    fn size(&self) -> usize {
        self.size
    }
    fn translate(&self, _: u64) -> (RawFile, u64) {
        unimplemented!("the simulated device has no file descriptors")
    }
    fn statistics(&self) -> &Arc<Statistics> {
        &self.stats
    }
}

#[derive(Debug)]
pub struct SimDevice {
    cap: usize,
    parts: Mutex<Vec<Arc<SimPartition>>>,
    stats: Arc<Statistics>,
}

impl SimDevice {
    pub fn new(cap: usize) -> Arc<dyn Device> {
        DISK.with(|d| d.borrow_mut().generation += 1);
        Arc::new(SimDevice { cap, parts: Mutex::new(vec![]), stats: Arc::new(Statistics::new(Throttle::default())) })
    }
}

impl Device for SimDevice {
    fn capacity(&self) -> usize {
        self.cap
    }
    fn allocated(&self) -> usize {
        self.parts.try_lock().unwrap().iter().map(|p| p.size).sum()
    }
    fn create_partition(&self, size: usize) -> FResult<Arc<dyn Partition>> {
        let mut parts = self.parts.try_lock().unwrap();
        let alloc: usize = parts.iter().map(|p| p.size).sum();
        if alloc + size > self.cap {
            return Err(Error::no_space(self.cap, alloc, alloc + size));
        }
        let id = parts.len();
        DISK.with(|d| {
            let mut d = d.borrow_mut();
            if d.parts.len() <= id {
                d.parts.push(vec![0u8; size]);
            }
            assert_eq!(d.parts[id].len(), size, "fsim: partition geometry changed across reopen");
        });
        let p = Arc::new(SimPartition { id: id as PartitionId, size, stats: self.stats.clone() });
        parts.push(p.clone());
        Ok(p)
    }
    fn partitions(&self) -> usize {
        self.parts.try_lock().unwrap().len()
    }
    fn partition(&self, id: PartitionId) -> Arc<dyn Partition> {
        self.parts.try_lock().unwrap()[id as usize].clone()
    }
    fn statistics(&self) -> &Arc<Statistics> {
        &self.stats
    }
}

struct Inflight;
impl Inflight {
    fn new() -> Self {
        DISK.with(|d| d.borrow_mut().inflight += 1);
        Inflight
    }
}
impl Drop for Inflight {
    fn drop(&mut self) {
        DISK.with(|d| d.borrow_mut().inflight -= 1);
    }
}

/// Yields until no device operation has been in flight for a while (all background work has drained).
pub async fn quiesce() {
    let mut calm = 0;
    for _ in 0..20_000 {
        shuttle::future::yield_now().await;
        if DISK.with(|d| d.borrow().inflight) == 0 {
            calm += 1;
            if calm >= 40 {
                return;
            }
        } else {
            calm = 0;
        }
    }
}

#[derive(Debug)]
pub struct SimIoEngine;

fn part_of(partition: &dyn Partition) -> usize {
    (partition as &dyn Any).downcast_ref::<SimPartition>().expect("fsim: foreign partition").id as usize
}

async fn delay() {
    let max = DISK.with(|d| d.borrow().max_delay);
    let n = if max == 0 { 0 } else { choice::io_draw(max + 1) };
    for _ in 0..n {
        shuttle::future::yield_now().await;
    }
}

impl IoEngine for SimIoEngine {
    fn read(&self, mut buf: Box<dyn IoBufMut>, partition: &dyn Partition, offset: u64) -> IoHandle {
        let part = part_of(partition);
        async move {
            hist::ev("dev_read_issue", part as u64, offset, buf.len() as u64);
            let _g = Inflight::new();
            delay().await;
            let len = buf.len();
            let off = offset as usize;
            let res = DISK.with(|d| {
                let mut d = d.borrow_mut();
                d.reads += 1;
                if off + len > d.parts[part].len() {
                    return Err(Error::new(ErrorKind::Io, "sim: read out of range"));
                }
                buf.copy_from_slice(&d.parts[part][off..off + len]);
                Ok(())
            });
            let (corrupt, fail) = DISK.with(|d| {
                let d = d.borrow();
                (d.read_faults.corrupt_per_mille, d.read_faults.error_per_mille)
            });
            let mut res = res;
            if fail > 0 && choice::io_draw(1000) < fail as usize {
                hist::fault("live_read_error");
                res = Err(Error::new(ErrorKind::Io, "sim: injected read error"));
            } else if corrupt > 0 && choice::io_draw(1000) < corrupt as usize && len > 0 {
                hist::fault("live_read_corruption");
                match choice::io_draw(3) {
                    0 => {
                        let bit = choice::io_draw(len * 8);
                        buf[bit / 8] ^= 1 << (bit % 8);
                    }
                    1 => {
                        let page = choice::io_draw(len.div_ceil(PAGE));
                        let end = ((page + 1) * PAGE).min(len);
                        buf[page * PAGE..end].fill(0);
                    }
                    _ => {
                        // misdirected read: bytes of another location of the same partition
                        let other = DISK.with(|d| {
                            let d = d.borrow();
                            let plen = d.parts[part].len();
                            let pages = plen / PAGE;
                            let p = choice::io_draw(pages.max(1)) * PAGE;
                            let n = len.min(plen - p);
                            d.parts[part][p..p + n].to_vec()
                        });
                        buf[..other.len()].copy_from_slice(&other);
                    }
                }
            }
            hist::ev("dev_read_done", part as u64, offset, len as u64);
            let b: Box<dyn IoB> = buf.into_iob();
            (b, res)
        }
        .boxed()
        .into()
    }

    fn write(&self, buf: Box<dyn IoBuf>, partition: &dyn Partition, offset: u64) -> IoHandle {
        let part = part_of(partition);
        async move {
            let len = buf.len();
            let off = offset as usize;
            let issue_seq = hist::ev("dev_write_issue", part as u64, offset, len as u64);
            let idx = DISK.with(|d| {
                let mut d = d.borrow_mut();
                let idx = d.writes.len();
                let generation = d.generation;
                d.writes.push(WriteRec { idx, part, offset: off, data: Arc::new(buf[..].to_vec()), issue_seq, apply_seq: None, generation });
                idx
            });
            let _g = Inflight::new();
            delay().await;
            let apply_seq = hist::ev("dev_write_apply", part as u64, offset, idx as u64);
            if off == 0 && len == PAGE && buf.iter().all(|b| *b == 0) {
                hist::probe("block_cleaned");
            }
            let res = DISK.with(|d| {
                let mut d = d.borrow_mut();
                if off + len > d.parts[part].len() {
                    return Err(Error::new(ErrorKind::Io, "sim: write out of range"));
                }
                let data = d.writes[idx].data.clone();
                d.parts[part][off..off + len].copy_from_slice(&data);
                d.writes[idx].apply_seq = Some(apply_seq);
                Ok(())
            });
            let b: Box<dyn IoB> = buf.into_iob();
            (b, res)
        }
        .boxed()
        .into()
    }
}

#[derive(Debug)]
pub struct SimIoEngineConfig;

impl IoEngineConfig for SimIoEngineConfig {
    fn build(self: Box<Self>, _: IoEngineBuildContext) -> futures_util::future::BoxFuture<'static, FResult<Arc<dyn IoEngine>>> {
        async move { Ok(Arc::new(SimIoEngine) as Arc<dyn IoEngine>) }.boxed()
    }
}

/// Image after applying, in ISSUE order, the first `m` writes of the log onto `base`.
pub fn image_at(base: &[Vec<u8>], writes: &[WriteRec], m: usize) -> Vec<Vec<u8>> {
    let mut img = base.to_vec();
    for w in writes.iter().take(m) {
        let end = (w.offset + w.data.len()).min(img[w.part].len());
        img[w.part][w.offset..end].copy_from_slice(&w.data[..end - w.offset]);
    }
    img
}

/// Applies the pages of `w` selected by `mask` (bit i = page i of the write) to `img`.
pub fn apply_torn(img: &mut [Vec<u8>], w: &WriteRec, mask: u64) {
    let pages = w.data.len().div_ceil(PAGE);
    for p in 0..pages {
        if p < 64 && mask & (1 << p) == 0 {
            continue;
        }
        if p >= 64 {
            continue;
        }
        let s = p * PAGE;
        let e = ((p + 1) * PAGE).min(w.data.len());
        img[w.part][w.offset + s..w.offset + e].copy_from_slice(&w.data[s..e]);
    }
}
