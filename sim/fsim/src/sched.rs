//! The scheduling policy: a `shuttle::scheduler::Scheduler` whose every decision is a draw from the `sched`
//! choice stream. Index 0 always means "keep running the current task" (or, when the current task yielded or is not
//! runnable, the lowest-numbered other task), so an all-zero stream is the sequential schedule and shrinking towards
//! zeros removes preemptions.

use std::cell::RefCell;

use shuttle::scheduler::{Schedule, Scheduler, Task, TaskId};

use crate::choice;

#[derive(Default, Debug, Clone)]
pub struct SchedStats {
    pub steps: u64,
    pub choice_points: u64,
    pub switches: u64,
    pub sched_hash: u64,
    pub max_runnable: usize,
}

thread_local! {
    pub static STATS: RefCell<SchedStats> = RefCell::new(SchedStats::default());
    /// While set, only the task that set it is scheduled (used to make "the runtime shuts down" atomic: every task is
    /// flagged as cancelled before any of them runs again).
    pub static FREEZE: std::cell::Cell<Option<usize>> = const { std::cell::Cell::new(None) };
}

pub fn freeze_others(on: bool) {
    let me = shuttle::current::get_current_task().map(usize::from);
    FREEZE.with(|f| f.set(if on { me } else { None }));
}

#[derive(Debug)]
pub struct ChoiceScheduler {
    done: bool,
}

impl ChoiceScheduler {
    pub fn new() -> Self {
        STATS.with(|s| *s.borrow_mut() = SchedStats::default());
        ChoiceScheduler { done: false }
    }
}

impl Scheduler for ChoiceScheduler {
    fn new_execution(&mut self) -> Option<Schedule> {
        if self.done {
            None
        } else {
            self.done = true;
            Some(Schedule::new(0))
        }
    }

    fn next_task(&mut self, runnable: &[&Task], current: Option<TaskId>, is_yielding: bool) -> Option<TaskId> {
        if let Some(only) = FREEZE.with(|f| f.get()) {
            if let Some(t) = runnable.iter().find(|t| usize::from(t.id()) == only) {
                STATS.with(|s| s.borrow_mut().steps += 1);
                return Some(t.id());
            }
        }
        let mut order: Vec<TaskId> = runnable.iter().map(|t| t.id()).collect();
        let cur_pos = current.and_then(|c| order.iter().position(|t| *t == c));
        if let Some(i) = cur_pos {
            let c = order.remove(i);
            if is_yielding {
                order.push(c);
            } else {
                order.insert(0, c);
            }
        }
        let pick = if order.len() == 1 { 0 } else { choice::sched_draw(order.len()) };
        let chosen = order[pick];
        STATS.with(|s| {
            let mut s = s.borrow_mut();
            s.steps += 1;
            s.max_runnable = s.max_runnable.max(order.len());
            if order.len() > 1 {
                s.choice_points += 1;
            }
            if Some(chosen) != current {
                s.switches += 1;
                let id: usize = chosen.into();
                s.sched_hash = choice::mix2(s.sched_hash, (id as u64) << 32 | (s.steps & 0xffff_ffff));
            }
        });
        Some(chosen)
    }

    fn next_u64(&mut self) -> u64 {
        choice::io_draw(1 << 30) as u64
    }
}
