//! Batch driver: seeded search over many simulated runs, violation triage (known findings, replay confirmation,
//! minimisation, replay files) and the evidence file.

use std::{
    collections::{BTreeMap, BTreeSet, HashSet},
    path::{Path, PathBuf},
    sync::{
        Arc, Mutex,
        atomic::{AtomicBool, AtomicUsize, Ordering},
    },
    time::Instant,
};

use serde::{Deserialize, Serialize};
use serde_json::json;

use crate::{
    choice::{Rng, mix2},
    hist::Violation,
    run::{RunInput, RunOutput, StreamSrc, run_case},
    types::{Case, Op},
};

pub const VERIF_ROOT: &str = "/verif";

#[derive(Clone, Debug, Serialize, Deserialize)]
pub struct ReplayFile {
    pub property: String,
    pub seed: u64,
    pub run_index: u64,
    pub case: Case,
    pub sched: Vec<u32>,
    pub io: Vec<u32>,
    pub violation: Violation,
    pub minimised: bool,
    pub note: String,
    /// which build of the simulator recorded it ("default", or "serde_codec": foyer's `serde` feature on)
    #[serde(default)]
    pub build_variant: String,
    /// the run aborts the process (its streams could not be recorded): replay re-generates it from (seed, index, tier)
    #[serde(default)]
    pub from_seed: bool,
    #[serde(default)]
    pub thorough: bool,
}

pub fn build_variant() -> &'static str {
    if cfg!(feature = "serde_codec") { "serde_codec" } else { "default" }
}

#[derive(Clone, Debug, Serialize, Deserialize)]
pub struct KnownFinding {
    pub property: String,
    pub id: String,
    /// "known" suppresses (prints KNOWN-FINDING); "fixed" suppresses nothing
    pub status: String,
    #[serde(default)]
    pub commit: Option<String>,
    pub rule: String,
    #[serde(default)]
    pub shape: BTreeMap<String, String>,
    pub what: String,
}

#[derive(Clone, Debug, Serialize, Deserialize, Default)]
pub struct KnownFindings {
    pub findings: Vec<KnownFinding>,
}

pub fn load_known() -> KnownFindings {
    let p = Path::new(VERIF_ROOT).join("known_findings.json");
    match std::fs::read_to_string(&p) {
        Ok(s) => serde_json::from_str(&s).unwrap_or_else(|e| {
            eprintln!("fsim: cannot parse {}: {e}", p.display());
            std::process::exit(2)
        }),
        Err(_) => KnownFindings::default(),
    }
}

impl KnownFindings {
    pub fn matches(&self, v: &Violation) -> Option<&KnownFinding> {
        self.findings.iter().find(|f| {
            f.status == "known"
                && f.property == v.property
                && f.rule == v.rule
                && f.shape.iter().all(|(k, val)| v.shape.get(k) == Some(val))
        })
    }
}

pub struct Plan {
    pub property: String,
    pub thorough: bool,
    pub seed: u64,
    pub runs: usize,
    pub budget_s: f64,
    pub workers: usize,
}

/// Per-property run counts (quick tier sized for roughly half a minute of simulation on 16 cores).
pub fn plan_for(prop: &str, thorough: bool, seed: u64) -> Plan {
    let (q, t, bq, bt) = match prop {
        "C02" => (25_000, 1_200_000, 40.0, 540.0),
        "C05" => (25_000, 1_200_000, 40.0, 540.0),
        "C06" => (22_000, 800_000, 40.0, 540.0),
        "C11" => (25_000, 1_000_000, 40.0, 540.0),
        "C13" => (25_000, 1_200_000, 40.0, 540.0),
        "C16" => (25_000, 1_200_000, 40.0, 540.0),
        "C17" => (25_000, 600_000, 40.0, 540.0),
        "C18" => (25_000, 1_200_000, 40.0, 540.0),
        _ => (6_000, 120_000, 45.0, 540.0),
    };
    let runs = std::env::var("VERIF_RUNS").ok().and_then(|s| s.parse().ok()).unwrap_or(if thorough { t } else { q });
    let budget_s = std::env::var("VERIF_BUDGET_S").ok().and_then(|s| s.parse().ok()).unwrap_or(if thorough { bt } else { bq });
    let workers = std::env::var("VERIF_WORKERS")
        .ok()
        .and_then(|s| s.parse().ok())
        .unwrap_or_else(|| std::thread::available_parallelism().map(|n| n.get()).unwrap_or(8).min(16));
    Plan { property: prop.to_string(), thorough, seed, runs, budget_s, workers }
}

/// Run indices the supervising parent told this batch to leave out (they die with a listed known finding).
fn skip_runs() -> &'static Vec<u64> {
    static SKIP: std::sync::OnceLock<Vec<u64>> = std::sync::OnceLock::new();
    SKIP.get_or_init(|| std::env::var("FSIM_SKIP").map(|s| s.split(',').filter_map(|x| x.trim().parse().ok()).collect()).unwrap_or_default())
}

/// Tells the supervising parent process which run this worker is executing (read only if this process dies).
fn note_inflight(slot: usize, idx: u64) {
    use std::os::unix::fs::FileExt;
    static FILE: std::sync::OnceLock<Option<std::fs::File>> = std::sync::OnceLock::new();
    let f = FILE.get_or_init(|| std::env::var("FSIM_INFLIGHT").ok().and_then(|p| std::fs::OpenOptions::new().create(true).write(true).truncate(false).open(p).ok()));
    if let Some(f) = f {
        let _ = f.write_all_at(&idx.to_le_bytes(), slot as u64 * 8);
    }
}

pub fn gen_case(prop: &str, thorough: bool, run_seed: u64) -> Case {
    let mut rng = Rng::new(mix2(run_seed, 0xC0FF_EE));
    let mut case = crate::cgen::generate(prop, thorough, &mut rng);
    if case.scenario != "mem" {
        case.cfg.insert("comp_real".into(), 1);
    }
    if !case.cfg.contains_key("sched_bias") {
        let bias = *rng.pick(&[0i64, 32, 51, 58, 61]);
        case.cfg.insert("sched_bias".into(), bias);
    }
    case
}

pub fn input_for(prop: &str, thorough: bool, seed: u64, idx: u64) -> RunInput {
    let run_seed = mix2(seed, idx);
    RunInput {
        case: gen_case(prop, thorough, run_seed),
        sched: StreamSrc::Seed(mix2(run_seed, 1)),
        io: StreamSrc::Seed(mix2(run_seed, 2)),
    }
}

struct Light {
    order_hash: u64,
    sched_hash: u64,
    nontrivial: bool,
    steps: u64,
    choice_points: u64,
    switches: u64,
    events: u64,
    probes: BTreeMap<String, u64>,
    faults: BTreeMap<String, u64>,
    full: Option<(RunInput, RunOutput)>,
}

fn same_class(a: &Violation, b: &Violation) -> bool {
    a.property == b.property && a.rule == b.rule
}

fn replay_input(case: &Case, sched: &[u32], io: &[u32]) -> RunInput {
    RunInput { case: case.clone(), sched: StreamSrc::Replay(sched.to_vec()), io: StreamSrc::Replay(io.to_vec()) }
}

fn fails_same(case: &Case, sched: &[u32], io: &[u32], target: &Violation) -> Option<(RunOutput, Violation)> {
    let out = run_case(replay_input(case, sched, io));
    if out.harness_error.is_some() {
        return None;
    }
    // same class, and the same standing with respect to the known findings: minimising a new violation must not
    // drift into a history that only shows an already known one
    let known = KNOWN.with(|k| k.borrow().clone_light());
    let target_known = known.matches(target).map(|f| f.id.clone());
    let v = out
        .violations
        .iter()
        .find(|v| same_class(v, target) && known.matches(v).map(|f| f.id.clone()) == target_known)
        .cloned()?;
    Some((out, v))
}

thread_local! {
    static KNOWN: std::cell::RefCell<KnownFindings> = std::cell::RefCell::new(load_known());
}

/// Delta-debugging style minimisation on the explicit case and the recorded streams.
pub fn shrink(case: &Case, sched: &[u32], io: &[u32], target: &Violation, budget: usize) -> (Case, Vec<u32>, Vec<u32>, Violation, usize) {
    let t0 = Instant::now();
    let mut best_case = case.clone();
    let mut best_sched = sched.to_vec();
    let mut best_io = io.to_vec();
    let mut best_v = target.clone();
    let mut execs = 0usize;
    let mut try_accept = |c: &Case, s: &[u32], i: &[u32], execs: &mut usize| -> Option<(Vec<u32>, Vec<u32>, Violation)> {
        if *execs >= budget || t0.elapsed().as_secs_f64() > 90.0 {
            return None;
        }
        *execs += 1;
        let (out, v) = fails_same(c, s, i, target)?;
        Some((out.sched_record, out.io_record, v))
    };
    // A. the sequential schedule
    if let Some((s, i, v)) = try_accept(&best_case, &[], &best_io, &mut execs) {
        best_sched = trim_zeros(s);
        best_io = i;
        best_v = v;
    }
    // B. drop operations (chunks, then singles), repeatedly
    let mut progress = true;
    while progress && execs < budget {
        progress = false;
        for ci in 0..best_case.clients.len() {
            let mut chunk = (best_case.clients[ci].len() / 2).max(1);
            loop {
                let mut start = 0usize;
                while start < best_case.clients[ci].len() {
                    let end = (start + chunk).min(best_case.clients[ci].len());
                    let mut cand = best_case.clone();
                    cand.clients[ci].drain(start..end);
                    if let Some((s, i, v)) = try_accept(&cand, &best_sched, &best_io, &mut execs) {
                        best_case = cand;
                        best_sched = trim_zeros(s);
                        best_io = i;
                        best_v = v;
                        progress = true;
                    } else {
                        start = end;
                    }
                    if execs >= budget {
                        break;
                    }
                }
                if chunk == 1 || execs >= budget {
                    break;
                }
                chunk = (chunk / 2).max(1);
            }
        }
        // drop empty clients (keep at least one)
        let mut ci = 0;
        while best_case.clients.len() > 1 && ci < best_case.clients.len() {
            if best_case.clients[ci].is_empty() {
                let mut cand = best_case.clone();
                cand.clients.remove(ci);
                if let Some((s, i, v)) = try_accept(&cand, &best_sched, &best_io, &mut execs) {
                    best_case = cand;
                    best_sched = trim_zeros(s);
                    best_io = i;
                    best_v = v;
                    continue;
                }
            }
            ci += 1;
        }
    }
    // C. schedule: truncate, then zero chunks
    for stream_is_sched in [true, false] {
        let mut cur = if stream_is_sched { best_sched.clone() } else { best_io.clone() };
        let mut len = cur.len() / 2;
        while len > 0 && execs < budget {
            let cand: Vec<u32> = cur[..cur.len() - len].to_vec();
            let r = if stream_is_sched { try_accept(&best_case, &cand, &best_io, &mut execs) } else { try_accept(&best_case, &best_sched, &cand, &mut execs) };
            if let Some((s, i, v)) = r {
                if stream_is_sched {
                    cur = cand;
                    best_sched = cur.clone();
                    best_io = i;
                    let _ = s;
                } else {
                    cur = cand;
                    best_io = cur.clone();
                }
                best_v = v;
                len = len.min(cur.len()) / 1;
                if cur.is_empty() {
                    break;
                }
                len = (cur.len() / 2).max(1).min(len);
            } else {
                len /= 2;
            }
        }
        let mut chunk = (cur.len() / 4).max(1);
        while chunk >= 1 && execs < budget && !cur.is_empty() {
            let mut start = 0;
            while start < cur.len() && execs < budget {
                let end = (start + chunk).min(cur.len());
                if cur[start..end].iter().all(|x| *x == 0) {
                    start = end;
                    continue;
                }
                let mut cand = cur.clone();
                for x in &mut cand[start..end] {
                    *x = 0;
                }
                let r = if stream_is_sched { try_accept(&best_case, &cand, &best_io, &mut execs) } else { try_accept(&best_case, &best_sched, &cand, &mut execs) };
                if let Some((_, i, v)) = r {
                    cur = cand;
                    if stream_is_sched {
                        best_sched = cur.clone();
                        best_io = i;
                    } else {
                        best_io = cur.clone();
                    }
                    best_v = v;
                }
                start = end;
            }
            if chunk == 1 {
                break;
            }
            chunk /= 2;
        }
        if stream_is_sched {
            best_sched = trim_zeros(best_sched);
        }
    }
    // D. simplify operation arguments
    for ci in 0..best_case.clients.len() {
        for oi in 0..best_case.clients[ci].len() {
            if execs >= budget {
                break;
            }
            let simpler = simplify(&best_case.clients[ci][oi]);
            if let Some(op) = simpler {
                let mut cand = best_case.clone();
                cand.clients[ci][oi] = op;
                if let Some((s, i, v)) = try_accept(&cand, &best_sched, &best_io, &mut execs) {
                    best_case = cand;
                    best_sched = trim_zeros(s);
                    best_io = i;
                    best_v = v;
                }
            }
        }
    }
    (best_case, best_sched, best_io, best_v, execs)
}

fn trim_zeros(mut v: Vec<u32>) -> Vec<u32> {
    while v.last() == Some(&0) {
        v.pop();
    }
    v
}

fn simplify(op: &Op) -> Option<Op> {
    match op {
        Op::Insert { k, ver, w, loc, hold } if *w > 1 || *hold && *loc == 0 => {
            Some(Op::Insert { k: *k, ver: *ver, w: (*w).min(1), loc: *loc, hold: false })
        }
        Op::Fetch { k, ver, w, yields, fail, hold } if *yields > 1 || *w > 1 => {
            Some(Op::Fetch { k: *k, ver: *ver, w: (*w).min(1), yields: (*yields).min(1), fail: *fail, hold: *hold })
        }
        Op::Yield { n } if *n > 1 => Some(Op::Yield { n: 1 }),
        _ => None,
    }
}

pub fn write_replay(rf: &ReplayFile) -> PathBuf {
    let dir = Path::new(VERIF_ROOT).join("replays");
    let _ = std::fs::create_dir_all(&dir);
    let p = dir.join(format!("{}-{}-{}.json", rf.property, rf.seed, rf.run_index));
    std::fs::write(&p, serde_json::to_string_pretty(rf).unwrap()).expect("write replay");
    p
}

/// Replays a file; prints the violation line and returns the exit code (1 reproduced, 0 not reproduced).
pub fn replay_file(path: &str, quiet: bool) -> i32 {
    let s = std::fs::read_to_string(path).unwrap_or_else(|e| {
        eprintln!("fsim: cannot read {path}: {e}");
        std::process::exit(2)
    });
    let rf: ReplayFile = serde_json::from_str(&s).unwrap_or_else(|e| {
        eprintln!("fsim: cannot parse {path}: {e}");
        std::process::exit(2)
    });
    // (a from-seed replay takes the case from the file - the generators may have changed since - and re-derives the
    // two streams from (seed, run index) exactly as the batch did)
    let out = if rf.from_seed {
        let run_seed = mix2(rf.seed, rf.run_index);
        run_case(RunInput { case: rf.case.clone(), sched: StreamSrc::Seed(mix2(run_seed, 1)), io: StreamSrc::Seed(mix2(run_seed, 2)) })
    } else {
        run_case(replay_input(&rf.case, &rf.sched, &rf.io))
    };
    if let Some(e) = &out.harness_error {
        eprintln!("fsim: harness error during replay: {e}");
        return 2;
    }
    if !quiet {
        println!("replay {}: {} violation(s), {} events, {} scheduling steps", path, out.violations.len(), out.events, out.stats.steps);
        for v in &out.violations {
            println!("  [{}] {}: {}", v.property, v.rule, v.detail);
        }
    }
    let known = load_known();
    let mut code = 0;
    let mut printed = BTreeSet::new();
    for v in out.violations.iter().filter(|v| same_class(v, &rf.violation)) {
        if let Some(k) = known.matches(v) {
            if printed.insert(k.id.clone()) {
                println!("KNOWN-FINDING: property={} {} ({})", v.property, k.what, k.id);
            }
        } else if code == 0 {
            println!("VIOLATION property={} replay={}", v.property, path);
            code = 1;
        }
    }
    if code == 0 && !quiet && out.violations.iter().all(|v| !same_class(v, &rf.violation)) {
        println!("replay did not reproduce the recorded violation class [{}] {}", rf.violation.property, rf.violation.rule);
    }
    code
}

pub fn real_vs_stub() -> serde_json::Value {
    json!({
        "real": [
            "foyer-memory: raw cache, indexer, in-flight table, RawFetch state machine, pipe, FIFO/LRU/LFU/S3FIFO/Sieve",
            "foyer-storage: store, keeper, filters, serde, compression (real zstd/lz4), block engine (engine, flusher, buffer/splitter, indexer, manager, reclaimer, scanner, recovery, tombstone log, pickers), MonitoredIoEngine, Statistics",
            "foyer: HybridCache, builder, writers",
            "foyer-common: code, error, properties, metrics (noop registry)"
        ],
        "stub": [
            "tokio runtime -> shuttle executor (foyer_common::spawn under cfg foyer_verif)",
            "parking_lot/std locks, atomics, std::thread::spawn -> shuttle primitives (SeqCst only)",
            "PsyncIoEngine/UringIoEngine + FsDevice -> SimIoEngine + SimDevice (in-memory image, pending-operation queue, write log)",
            "origin fetches -> harness futures"
        ],
        "not_exercised": ["uring engine", "combined/partial devices", "io throttle / rate limiter", "tracing feature", "foyer-bench"]
    })
}

pub fn level_of(prop: &str) -> &'static str {
    match prop {
        "C03" | "C04" | "C10" => "fault_enumeration",
        _ => "exploration",
    }
}

pub fn rule_text(prop: &str) -> String {
    let nt = match prop {
        "C02" | "C17" => "a key with >= 3 linearizability-relevant operations was checked, or an ample-capacity lookup was judged",
        "C05" => "an insert that evicted was judged for minimality",
        "C06" => ">= 2 overlapping callers of one key",
        "C11" => "an explicit insert returned while a fetch of the same key was waiting on its origin (premise of the property held)",
        "C13" => "a non-phantom entry left memory and its notification was judged",
        "C16" => "a user callback ran with the lock-held check active and re-entered the cache",
        "C18" => "a handle was outdated at a judged quiescent point, or a pin interval was judged",
        _ => "see per-property notes",
    };
    format!(
        "cases are generated from splitmix(VERIF_SEED, run index): configuration knobs and per-client operation lists up front, then every scheduling decision and I/O completion is a recorded draw; distinct = distinct hash of the observable event order (operation invoke/return, callbacks, I/O completions); non-trivial = {nt}"
    )
}

pub fn check_property(plan: &Plan) -> i32 {
    let t0 = Instant::now();
    let known = load_known();
    println!("VERIF_SEED={} property={} tier={} runs<={} workers={}", plan.seed, plan.property, if plan.thorough { "thorough" } else { "quick" }, plan.runs, plan.workers);
    let next = Arc::new(AtomicUsize::new(0));
    let stop = Arc::new(AtomicBool::new(false));
    let results: Arc<Mutex<BTreeMap<usize, Light>>> = Arc::new(Mutex::new(BTreeMap::new()));
    let harness_err: Arc<Mutex<Option<String>>> = Arc::new(Mutex::new(None));
    let unmatched_found = Arc::new(AtomicUsize::new(usize::MAX));
    let mut handles = vec![];
    for _ in 0..plan.workers {
        let next = next.clone();
        let stop = stop.clone();
        let results = results.clone();
        let harness_err = harness_err.clone();
        let unmatched_found = unmatched_found.clone();
        let prop = plan.property.clone();
        let thorough = plan.thorough;
        let seed = plan.seed;
        let runs = plan.runs;
        let budget = plan.budget_s;
        let known = known.clone_light();
        let slot = handles.len();
        handles.push(std::thread::spawn(move || {
            loop {
                note_inflight(slot, u64::MAX);
                let idx = next.fetch_add(1, Ordering::SeqCst);
                if idx >= runs || stop.load(Ordering::SeqCst) || t0.elapsed().as_secs_f64() > budget {
                    break;
                }
                // do not run far beyond the first unmatched violation
                if std::env::var("VERIF_TRIAGE").is_err() && idx > unmatched_found.load(Ordering::SeqCst).saturating_add(64) {
                    break;
                }
                if skip_runs().contains(&(idx as u64)) {
                    continue;
                }
                let input = input_for(&prop, thorough, seed, idx as u64);
                note_inflight(slot, idx as u64);
                let keep_sample = idx < 3;
                let out = run_case(input.clone());
                if let Some(e) = &out.harness_error {
                    let mut h = harness_err.lock().unwrap();
                    if h.is_none() {
                        *h = Some(format!("run {idx}: {e}"));
                    }
                    stop.store(true, Ordering::SeqCst);
                }
                let interesting = !out.violations.is_empty();
                if out.violations.iter().any(|v| known.matches(v).is_none()) {
                    unmatched_found.fetch_min(idx, Ordering::SeqCst);
                }
                let light = Light {
                    order_hash: out.order_hash,
                    sched_hash: out.stats.sched_hash,
                    nontrivial: out.nontrivial,
                    steps: out.stats.steps,
                    choice_points: out.stats.choice_points,
                    switches: out.stats.switches,
                    events: out.events,
                    probes: out.probes.clone(),
                    faults: out.faults.clone(),
                    full: if interesting || keep_sample { Some((input, out)) } else { None },
                };
                results.lock().unwrap().insert(idx, light);
            }
        }));
    }
    let mut worker_died = false;
    for h in handles {
        if h.join().is_err() {
            worker_died = true;
        }
    }
    if worker_died || results.lock().unwrap().is_empty() {
        eprintln!("HARNESS-ERROR: a worker thread died or no run was executed (generator or driver failure)");
        return 2;
    }
    if let Some(e) = harness_err.lock().unwrap().clone() {
        eprintln!("HARNESS-ERROR: {e}");
        return 2;
    }
    let results = std::mem::take(&mut *results.lock().unwrap());
    if let Ok(path) = std::env::var("VERIF_HASHLOG") {
        // determinism self-test: per run index, the hash of everything observable
        let mut out = String::new();
        for (idx, l) in results.iter() {
            out.push_str(&format!("{idx} order={:016x} sched={:016x} steps={} events={}\n", l.order_hash, l.sched_hash, l.steps, l.events));
        }
        let _ = std::fs::write(path, out);
    }
    // ---- aggregate
    let mut orders: HashSet<u64> = HashSet::new();
    let mut nontriv: HashSet<u64> = HashSet::new();
    let mut scheds: HashSet<u64> = HashSet::new();
    let (mut steps, mut cps, mut switches, mut events) = (0u64, 0u64, 0u64, 0u64);
    let mut probes: BTreeMap<String, u64> = BTreeMap::new();
    let mut faults: BTreeMap<String, u64> = BTreeMap::new();
    let mut samples = vec![];
    for (idx, l) in results.iter() {
        orders.insert(l.order_hash);
        scheds.insert(l.sched_hash);
        if l.nontrivial {
            nontriv.insert(l.order_hash);
        }
        steps += l.steps;
        cps += l.choice_points;
        switches += l.switches;
        events += l.events;
        for (k, v) in &l.probes {
            *probes.entry(k.clone()).or_insert(0) += v;
        }
        for (k, v) in &l.faults {
            *faults.entry(k.clone()).or_insert(0) += v;
        }
        if *idx < 3 {
            if let Some((inp, out)) = &l.full {
                samples.push(json!({
                    "run_index": idx,
                    "cfg": inp.case.cfg,
                    "clients": inp.case.clients,
                    "outcome": {
                        "violations": out.violations.len(),
                        "events": out.events,
                        "scheduling_steps": out.stats.steps,
                        "choice_points": out.stats.choice_points,
                        "context_switches": out.stats.switches,
                        "probes": out.probes,
                    }
                }));
            }
        }
    }
    if std::env::var("VERIF_TRIAGE").is_ok() {
        let mut classes: BTreeMap<String, (u64, usize, String)> = BTreeMap::new();
        for (idx, l) in results.iter() {
            if let Some((_, out)) = &l.full {
                for v in &out.violations {
                    let key = format!("{} {} {:?}", v.property, v.rule, v.shape);
                    let e = classes.entry(key).or_insert((0, *idx, v.detail.clone()));
                    e.0 += 1;
                }
            }
        }
        for (k, (n, idx, d)) in classes {
            println!("TRIAGE {n:6} x {k} first@{idx}: {d}");
        }
    }
    // ---- triage violations in run-index order
    let mut exit = 0;
    let mut printed_known: BTreeSet<String> = BTreeSet::new();
    let mut reported_classes: Vec<Violation> = vec![];
    let mut violations_total = 0u64;
    let mut known_hits: BTreeMap<String, u64> = BTreeMap::new();
    for (idx, l) in results.iter() {
        let Some((inp, out)) = &l.full else { continue };
        for v in &out.violations {
            violations_total += 1;
            if let Some(k) = known.matches(v) {
                *known_hits.entry(k.id.clone()).or_insert(0) += 1;
                if printed_known.insert(k.id.clone()) {
                    println!("KNOWN-FINDING: property={} {} [{}; first at run {}: {}]", v.property, k.what, k.id, idx, v.detail);
                }
                continue;
            }
            if reported_classes.iter().any(|r| same_class(r, v)) || reported_classes.len() >= 2 {
                continue;
            }
            reported_classes.push(v.clone());
            // confirm by replay from the recorded streams
            let confirmed = fails_same(&inp.case, &out.sched_record, &out.io_record, v);
            if confirmed.is_none() {
                eprintln!(
                    "HARNESS-ERROR: run {idx} reported [{}] {} but replaying its recorded streams did not reproduce it (nondeterminism)",
                    v.property, v.rule
                );
                return 2;
            }
            let (c, s, i, mv, execs) = shrink(&inp.case, &out.sched_record, &out.io_record, v, 400);
            let rf = ReplayFile {
                property: v.property.clone(),
                seed: plan.seed,
                run_index: *idx as u64,
                case: c,
                sched: s,
                io: i,
                violation: mv.clone(),
                minimised: true,
                note: format!(
                    "original: {} ops, {} sched draws, {} io draws; minimised with {} re-executions",
                    inp.case.ops_total(),
                    out.sched_record.len(),
                    out.io_record.len(),
                    execs
                ),
                build_variant: build_variant().to_string(),
                from_seed: false,
                thorough: false,
            };
            let path = write_replay(&rf);
            // final confirmation in a fresh process
            let fresh = std::process::Command::new(std::env::current_exe().unwrap())
                .args(["--replay", path.to_str().unwrap(), "--quiet"])
                .output();
            let reproduced = matches!(&fresh, Ok(o) if o.status.code() == Some(1));
            if !reproduced {
                eprintln!("HARNESS-ERROR: minimised replay {} did not reproduce in a fresh process", path.display());
                return 2;
            }
            println!("  [{}] {}: {}", mv.property, mv.rule, mv.detail);
            println!("  minimised to {} ops / {} sched draws / {} io draws ({})", rf.case.ops_total(), rf.sched.len(), rf.io.len(), rf.note);
            println!("VIOLATION property={} replay={}", v.property, path.display());
            exit = 1;
        }
    }
    // every listed known finding of this property gets its line, observed in this batch or not (a finding is not an
    // alarm to keep raising, but it is not to be forgotten either)
    for k in known.findings.iter().filter(|k| k.status == "known" && k.property == plan.property) {
        if printed_known.insert(k.id.clone()) {
            println!("KNOWN-FINDING: property={} {} [{}; not observed in this batch]", k.property, k.what, k.id);
        }
    }
    // ---- evidence
    let wall = t0.elapsed().as_secs_f64();
    let evaluations = results.len() as u64;
    let zero_probes: Vec<String> = crate::cgen::expected_probes(&plan.property).into_iter().filter(|p| probes.get(*p).copied().unwrap_or(0) == 0).map(|s| s.to_string()).collect();
    // evidence of the same check run with another build of the simulator (C08: foyer's `serde` feature on), merged in
    let other_variants: Vec<serde_json::Value> = std::env::var("VERIF_MERGE_EVIDENCE")
        .ok()
        .and_then(|p| std::fs::read_to_string(p).ok())
        .and_then(|t| serde_json::from_str::<serde_json::Value>(&t).ok())
        .map(|v| {
            let c = &v["coverage"];
            vec![json!({
                "build_variant": c["build_variant"], "evaluations": c["evaluations"], "distinct_nontrivial": c["distinct_nontrivial"],
                "faults_fired": c["faults_fired"], "reach_probes": c["reach_probes"], "simulated_time": c["simulated_time"],
                "violations": v["violations"], "wall_s": v["wall_s"], "samples": [c["samples"][0]],
            })]
        })
        .unwrap_or_default();
    let ev = json!({
        "property_id": plan.property,
        "tier": if plan.thorough { "thorough" } else { "quick" },
        "seed": plan.seed,
        "level": level_of(&plan.property),
        "coverage": {
            "evaluations": evaluations,
            "distinct_nontrivial": nontriv.len(),
            "rule": rule_text(&plan.property),
            "samples": samples,
            "distinct_interleavings_by_event_order_hash": orders.len(),
            "distinct_schedules_by_context_switch_hash": scheds.len(),
            "simulated_time": { "scheduling_steps": steps, "genuine_choice_points": cps, "context_switches": switches, "history_events": events, "note": "the simulation has no clock; time is the global event sequence number" },
            "runs_per_hour": if wall > 0.0 { (evaluations as f64 / wall * 3600.0) as u64 } else { 0 },
            "faults_fired": faults,
            "reach_probes": probes,
            "probes_stuck_at_zero": zero_probes,
            "known_findings_hit": known_hits,
            "real_vs_stub": real_vs_stub(),
            "exhaustive": false,
            "build_variant": build_variant(),
            "other_build_variants": other_variants,
        },
        "assumptions": [
            "shuttle models sequentially consistent atomics only; Relaxed/Acquire/Release are explored as SeqCst",
            "a clean batch is evidence, not proof: schedules, completion orders and workloads are sampled",
            "release-like build (debug assertions off): verdicts do not depend on strict_assert!",
            "getrandom is pinned by an LD_PRELOAD shim so HashMap iteration order is reproducible"
        ],
        "wall_s": wall,
        "violations": violations_total,
    });
    // VERIF_EVIDENCE_DIR: trial runs against seeded changes must not overwrite the evidence of the real tree
    let dir = std::env::var("VERIF_EVIDENCE_DIR").map(std::path::PathBuf::from).unwrap_or_else(|_| Path::new(VERIF_ROOT).join("evidence"));
    let _ = std::fs::create_dir_all(&dir);
    std::fs::write(dir.join(format!("{}.json", plan.property)), serde_json::to_string_pretty(&ev).unwrap()).expect("write evidence");
    println!(
        "{}: {} runs in {:.1}s, {} distinct event orders ({} non-trivial), {} scheduling steps, {} violations ({} known)",
        plan.property,
        evaluations,
        wall,
        orders.len(),
        nontriv.len(),
        steps,
        violations_total,
        known_hits.values().sum::<u64>()
    );
    exit
}

impl KnownFindings {
    fn clone_light(&self) -> KnownFindings {
        KnownFindings { findings: self.findings.clone() }
    }
}
