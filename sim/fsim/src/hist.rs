//! Per-run recorded history: one global event sequence number ("simulated time"), the event log the oracles read,
//! the violation sink, reach probes and fault counters. Everything lives in OS-thread-locals: one simulated run owns
//! one OS thread, all simulated tasks of the run execute on it, and logging never draws from a choice stream.

use std::{cell::RefCell, collections::BTreeMap};

use serde::{Deserialize, Serialize};

use crate::choice::mix2;

#[derive(Clone, Debug)]
pub struct Ev {
    pub seq: u64,
    pub task: usize,
    pub kind: &'static str,
    pub a: u64,
    pub b: u64,
    pub c: u64,
}

#[derive(Clone, Debug, Serialize, Deserialize, PartialEq, Eq)]
pub struct Violation {
    pub property: String,
    /// oracle rule that fired; part of the violation class used for shrinking and known-finding matching
    pub rule: String,
    pub detail: String,
    /// causal shape (small key/value map) for known-finding matching; never contains seeds
    pub shape: BTreeMap<String, String>,
}

#[derive(Default)]
pub struct Hist {
    pub seq: u64,
    pub events: Vec<Ev>,
    pub violations: Vec<Violation>,
    pub probes: BTreeMap<&'static str, u64>,
    pub faults: BTreeMap<&'static str, u64>,
    pub order_hash: u64,
    pub nontrivial: bool,
    pub notes: Vec<String>,
}

thread_local! {
    static HIST: RefCell<Hist> = RefCell::new(Hist::default());
}

pub fn reset() {
    HIST.with(|h| *h.borrow_mut() = Hist::default());
}

pub fn take() -> Hist {
    HIST.with(|h| std::mem::take(&mut *h.borrow_mut()))
}

fn me() -> usize {
    shuttle::current::get_current_task().map(usize::from).unwrap_or(usize::MAX)
}

/// Append an event; returns its sequence number.
pub fn ev(kind: &'static str, a: u64, b: u64, c: u64) -> u64 {
    let task = me();
    HIST.with(|h| {
        let mut h = h.borrow_mut();
        h.seq += 1;
        let seq = h.seq;
        h.order_hash = mix2(mix2(h.order_hash, hash_str(kind)), mix2(a, mix2(b, c)));
        h.events.push(Ev { seq, task, kind, a, b, c });
        seq
    })
}

/// Current sequence number (without logging).
pub fn now() -> u64 {
    HIST.with(|h| h.borrow().seq)
}

pub fn hash_str(s: &str) -> u64 {
    let mut x = 0xcbf2_9ce4_8422_2325u64;
    for b in s.bytes() {
        x ^= b as u64;
        x = x.wrapping_mul(0x1000_0000_01b3);
    }
    x
}

pub fn violation(property: &str, rule: &str, detail: String, shape: &[(&str, String)]) {
    HIST.with(|h| {
        let mut h = h.borrow_mut();
        if h.violations.len() < 16 {
            h.violations.push(Violation {
                property: property.to_string(),
                rule: rule.to_string(),
                detail,
                shape: shape.iter().map(|(k, v)| (k.to_string(), v.clone())).collect(),
            });
        }
    });
}

/// Post-hoc completion of classification aids that need events recorded after the violation was reported.
pub fn amend_violations(mut f: impl FnMut(&mut Violation)) {
    HIST.with(|h| {
        let mut h = h.borrow_mut();
        for v in h.violations.iter_mut() {
            f(v);
        }
    });
}

pub fn violations_so_far() -> usize {
    HIST.with(|h| h.borrow().violations.len())
}

pub fn probe(name: &'static str) {
    probe_n(name, 1);
}

pub fn probe_n(name: &'static str, n: u64) {
    HIST.with(|h| *h.borrow_mut().probes.entry(name).or_insert(0) += n);
}

pub fn fault(name: &'static str) {
    HIST.with(|h| *h.borrow_mut().faults.entry(name).or_insert(0) += 1);
}

pub fn set_nontrivial() {
    HIST.with(|h| h.borrow_mut().nontrivial = true);
}

pub fn note(s: String) {
    HIST.with(|h| {
        let mut h = h.borrow_mut();
        if h.notes.len() < 64 {
            h.notes.push(s)
        }
    });
}

/// Read-only access to the event log.
pub fn with_events<R>(f: impl FnOnce(&[Ev]) -> R) -> R {
    HIST.with(|h| f(&h.borrow().events))
}

pub fn events_clone() -> Vec<Ev> {
    HIST.with(|h| h.borrow().events.clone())
}

pub fn events_since(seq: u64) -> Vec<Ev> {
    HIST.with(|h| h.borrow().events.iter().filter(|e| e.seq > seq).cloned().collect())
}
