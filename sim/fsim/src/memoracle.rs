//! Oracles for the memory scenario. Each reads the recorded history (operation log with invoke/return sequence
//! numbers, listener / pipe / origin events, observation snapshots) and reports violations of ONE property.

use std::collections::{BTreeMap, BTreeSet};

use crate::{
    hist::{self, Ev},
    lin::{self, LinKind, LinOp},
    memscn::{HeldRead, MemLog},
    types::{Case, Op, OpRec, Res},
};

fn shard_capacity_for(total: usize, shards: usize, index: usize) -> usize {
    // the documented distribution: capacities add up to the total, remainder spread over the first shards
    total / shards + usize::from(index < total % shards)
}

struct Ctx<'a> {
    case: &'a Case,
    log: &'a MemLog,
    evs: &'a [Ev],
    prop: &'a str,
    keys: u64,
    shards: usize,
    algo: i64,
    filter_mod: u64,
}

impl Ctx<'_> {
    fn phantom_insert(&self, k: u64, loc: u8) -> bool {
        loc == 2 || (self.filter_mod > 0 && k % self.filter_mod == self.filter_mod - 1)
    }
    fn shard_of(&self, k: u64) -> usize {
        let h = match self.case.get("hmode") {
            1 => k / 2,
            2 => k.wrapping_mul(8),
            _ => k,
        };
        (h as usize) % self.shards
    }
    fn v(&self, rule: &str, detail: String, shape: &[(&str, String)]) {
        hist::violation(self.prop, rule, detail, shape);
    }
    fn algo_name(&self) -> String {
        ["fifo", "lru", "lfu", "s3fifo", "sieve"][self.algo.clamp(0, 4) as usize].to_string()
    }
}

pub fn check(case: &Case, log: &MemLog, evs: &[Ev]) {
    let cx = Ctx {
        case,
        log,
        evs,
        prop: &case.property,
        keys: case.get("keys").max(1) as u64,
        shards: case.get("shards").max(1) as usize,
        algo: case.get("algo"),
        filter_mod: case.get("filter_mod").max(0) as u64,
    };
    match case.property.as_str() {
        "C02" => {
            c02(&cx);
            handles_unchanged(&cx);
        }
        "C05" => c05(&cx),
        "C06" => c06(&cx),
        "C11" => c11(&cx),
        "C13" => c13(&cx),
        "C16" => {} // inline (callback-under-lock) + deadlock detection by the runtime
        "C17" => {
            c02(&cx);
            ample_no_loss(&cx);
        }
        "C18" => c18(&cx),
        _ => {}
    }
}

// ---------------------------------------------------------------------------------------------------------------
// Versions written into the cache and where they come from.

#[derive(Clone, Debug)]
struct Origin {
    k: u64,
    ver: u32,
    start: u64,
    /// seq of origin_done (or u64::MAX)
    done: u64,
    /// seq of origin_drop (or u64::MAX)
    dropped: u64,
    failed: bool,
}

fn origins(evs: &[Ev]) -> Vec<Origin> {
    let mut m: BTreeMap<(u64, u32), Origin> = BTreeMap::new();
    for e in evs {
        match e.kind {
            "origin_start" => {
                m.insert(
                    (e.a, e.b as u32),
                    Origin { k: e.a, ver: e.b as u32, start: e.seq, done: u64::MAX, dropped: u64::MAX, failed: false },
                );
            }
            "origin_done" => {
                if let Some(o) = m.get_mut(&(e.a, e.b as u32)) {
                    o.done = e.seq;
                    o.failed = e.c != 0;
                }
            }
            "origin_drop" => {
                if let Some(o) = m.get_mut(&(e.a, e.b as u32)) {
                    o.dropped = e.seq;
                }
            }
            _ => {}
        }
    }
    m.into_values().collect()
}

fn weight_of(log: &MemLog, k: u64, ver: u32) -> Option<u32> {
    for r in &log.oplog {
        match &r.op {
            Op::Insert { k: kk, ver: vv, w, .. } if *kk == k && *vv == ver => return Some(*w),
            Op::Fetch { k: kk, ver: vv, w, .. } if *kk == k && *vv == ver => return Some(*w),
            _ => {}
        }
    }
    None
}

// ---------------------------------------------------------------------------------------------------------------
// C02: per-key linearizability against an atomic register whose reads may miss.

fn c02(cx: &Ctx) {
    let orgs = origins(cx.evs);
    let end = cx.evs.last().map(|e| e.seq).unwrap_or(0) + 1;
    for k in 0..cx.keys {
        let mut ops: Vec<LinOp> = vec![];
        for r in &cx.log.oplog {
            let lbl = |s: &str| format!("c{}#{} {}", r.client, r.idx, s);
            match &r.op {
                Op::Insert { k: kk, ver, loc, .. } if *kk == k => {
                    if cx.phantom_insert(k, *loc) {
                        // a phantom insert still replaces the resident copy (emplace removes the old record)
                        ops.push(LinOp { inv: r.inv, ret: r.ret, kind: LinKind::Unset, label: lbl("insert-phantom") });
                    } else {
                        ops.push(LinOp { inv: r.inv, ret: r.ret, kind: LinKind::Write(*ver), label: lbl(&format!("insert v{ver}")) });
                    }
                }
                Op::Get { k: kk, .. } if *kk == k && r.res.tag == Res::HIT => {
                    ops.push(LinOp { inv: r.inv, ret: r.ret, kind: LinKind::ReadHit(r.res.ver), label: lbl(&format!("get=v{}", r.res.ver)) });
                }
                Op::Fetch { k: kk, .. } if *kk == k && r.res.tag == Res::HIT => {
                    ops.push(LinOp { inv: r.inv, ret: r.ret, kind: LinKind::ReadHit(r.res.ver), label: lbl(&format!("fetch=v{}", r.res.ver)) });
                }
                Op::Remove { k: kk } if *kk == k => {
                    let kind = if r.res.tag == Res::HIT { LinKind::RemoveSome(r.res.ver) } else { LinKind::Unset };
                    ops.push(LinOp { inv: r.inv, ret: r.ret, kind, label: lbl(&format!("remove={:?}", r.res.tag == Res::HIT)) });
                }
                Op::Contains { k: kk } | Op::Touch { k: kk } if *kk == k && r.res.tag == Res::TRUE => {
                    ops.push(LinOp { inv: r.inv, ret: r.ret, kind: LinKind::ReadAny, label: lbl("contains/touch=true") });
                }
                Op::Clear => {
                    ops.push(LinOp { inv: r.inv, ret: r.ret, kind: LinKind::Unset, label: lbl("clear") });
                }
                _ => {}
            }
        }
        for o in orgs.iter().filter(|o| o.k == k && o.done != u64::MAX && !o.failed) {
            // the insert a fetch task performs after its origin resolved: takes effect at some point after the
            // resolution; it may also not happen at all (round closed by an explicit insert)
            let phantom = cx.filter_mod > 0 && k % cx.filter_mod == cx.filter_mod - 1;
            // the round this origin belongs to was closed before the origin resolved if the fetch that owns the origin
            // had already been answered with another version (an explicit insert answers the waiters and closes the
            // round): the late result is then never inserted
            let closed = cx.log.oplog.iter().any(|q| matches!(&q.op, Op::Fetch { k: kk, ver, .. } if *kk == k && *ver == o.ver) && q.ret < o.done && q.res.tag == Res::HIT && q.res.ver != o.ver);
            if closed {
                hist::probe("lin_fetch_round_closed_before_origin_resolved");
            }
            if !phantom && !closed {
                ops.push(LinOp { inv: o.done, ret: end, kind: LinKind::OptionalWrite(o.ver), label: format!("fetch-insert v{}", o.ver) });
            }
        }
        // sweep reads (final, sequential)
        if let Some(Some((ver, _))) = cx.log.sweep.get(k as usize) {
            ops.push(LinOp { inv: end + 1, ret: end + 2, kind: LinKind::ReadHit(*ver), label: format!("sweep=v{ver}") });
        }
        if ops.len() > 22 {
            hist::probe("lin_skipped_too_long");
            continue;
        }
        hist::probe("lin_checked");
        if ops.len() >= 3 {
            hist::set_nontrivial();
        }
        if let Err(h) = lin::check(&ops) {
            cx.v(
                "not-linearizable",
                format!("key {k}: no linearization against a register whose reads may miss: {h}"),
                &[("algo", cx.algo_name())],
            );
        }
    }
}

fn handles_unchanged(cx: &Ctx) {
    let check = |h: &HeldRead, at: &str| {
        if h.read_k != h.k || h.read_ver != h.ver || h.read_w != h.w as usize {
            cx.v(
                "handle-changed",
                format!("handle for ({},v{},w{}) reads ({},v{},w{}) {at}", h.k, h.ver, h.w, h.read_k, h.read_ver, h.read_w),
                &[],
            );
        }
    };
    for s in &cx.log.snaps {
        for h in &s.held {
            check(h, "at a quiescent point");
        }
    }
    for h in &cx.log.final_held {
        check(h, "at the end of the run");
    }
}

// ---------------------------------------------------------------------------------------------------------------
// Sequential model (single client): which versions are resident, derived from the op log and the leave events.

#[derive(Clone, Debug, Default)]
struct Model {
    /// (k, ver) -> weight, resident (non-phantom) versions that have not left
    live: BTreeMap<(u64, u32), u32>,
    cap: usize,
}

fn leave_events_in<'a>(evs: &'a [Ev], lo: u64, hi: u64) -> impl Iterator<Item = &'a Ev> {
    evs.iter().filter(move |e| e.kind == "leave" && e.seq > lo && e.seq < hi)
}

/// Applies one op of a single-client history to the model. Returns the evicted (k,ver,w) list in order.
fn apply(cx: &Ctx, m: &mut Model, r: &OpRec) -> Vec<(u64, u32, u32, u64)> {
    let mut left = vec![];
    // additions first (the new version is resident at return unless phantom)
    match &r.op {
        Op::Insert { k, ver, w, loc, .. } => {
            if !cx.phantom_insert(*k, *loc) {
                m.live.insert((*k, *ver), *w);
            }
        }
        Op::Fetch { k, .. } if r.res.tag == Res::HIT && r.res.aux == 1 => {
            let phantom = cx.filter_mod > 0 && k % cx.filter_mod == cx.filter_mod - 1;
            if !phantom {
                m.live.insert((*k, r.res.ver), r.res.w);
            }
        }
        Op::Resize { cap } if r.res.tag == Res::TRUE => m.cap = *cap as usize,
        _ => {}
    }
    for e in leave_events_in(cx.evs, r.inv, r.ret) {
        let key = (e.b, e.c as u32);
        if let Some(w) = m.live.remove(&key) {
            left.push((e.b, e.c as u32, w, e.a));
        }
    }
    left
}

// ---------------------------------------------------------------------------------------------------------------
// C05: usage accounting exact, capacity bounded, no over-eviction.

fn c05(cx: &Ctx) {
    let log = cx.log;
    // (a) final sweep exactness (any number of clients): usage == sum of weights a lookup finds, entries == count
    if cx.case.get("sweep") != 0 && !log.sweep.is_empty() {
        let sum: usize = log.sweep.iter().flatten().map(|(_, w)| *w).sum();
        let cnt = log.sweep.iter().flatten().count();
        hist::probe("c05_sweep");
        if sum != log.usage_before_sweep {
            cx.v(
                "usage-vs-lookup-sweep",
                format!("usage() = {} but the entries a lookup finds weigh {} in total", log.usage_before_sweep, sum),
                &[("after_clear", had_clear(cx).to_string()), ("touch", had_touch(cx).to_string())],
            );
        }
        if cnt != log.entries_before_sweep {
            cx.v(
                "entries-vs-lookup-sweep",
                format!("entries() = {} but a lookup finds {} keys", log.entries_before_sweep, cnt),
                &[],
            );
        }
    }
    if let Some(u) = log.fill_usage {
        let cap = cx.case.get("fill_cap").max(0) as usize;
        hist::probe("c05_fill");
        // with fewer units than shards some shards have capacity 0 and hold one over-sized entry each
        if cap >= cx.shards && u != cap {
            cx.v(
                "shard-capacities-sum",
                format!("after filling every shard with weight-1 entries usage is {u}, configured capacity {cap} (shards {})", cx.shards),
                &[],
            );
        }
    }
    if cx.case.clients.len() != 1 || cx.case.get("stepwise") == 0 {
        return;
    }
    // (b) stepwise, single client
    let mut m = Model { live: BTreeMap::new(), cap: cx.case.get("cap") as usize };
    for (i, r) in log.oplog.iter().enumerate() {
        let before = m.clone();
        let left = apply(cx, &mut m, r);
        let held = pinned_at(cx, r.ret);
        let snap = log.snaps.get(i);
        // exact accounting at this quiescent point
        if let Some(s) = snap {
            let mut sum = 0usize;
            let mut cnt = 0usize;
            let mut unknown = false;
            for k in 0..cx.keys {
                if s.contains[k as usize] {
                    let vs: Vec<_> = m.live.range((k, 0)..=(k, u32::MAX)).collect();
                    if vs.len() == 1 {
                        sum += *vs[0].1 as usize;
                        cnt += 1;
                    } else {
                        unknown = true;
                    }
                }
            }
            if unknown {
                hist::probe("c05_model_unknown");
            } else {
                hist::probe("c05_step_checked");
                if s.usage != sum {
                    cx.v(
                        "usage-vs-findable",
                        format!("after op #{i} {:?}: usage() = {} but findable entries weigh {}", r.op, s.usage, sum),
                        &[("after_clear", matches!(r.op, Op::Clear).to_string()), ("op", opname(&r.op))],
                    );
                    return;
                }
                if s.entries != cnt {
                    cx.v(
                        "entries-vs-findable",
                        format!("after op #{i} {:?}: entries() = {} but {} keys are findable", r.op, s.entries, cnt),
                        &[("op", opname(&r.op))],
                    );
                    return;
                }
            }
            if matches!(r.op, Op::Clear) && (s.usage != 0 || s.entries != 0) {
                cx.v("clear-leaves-usage", format!("after clear(): usage {} entries {}", s.usage, s.entries), &[]);
                return;
            }
        }
        // eviction minimality / bound for inserts (per shard)
        let (wk, wv, ww) = match &r.op {
            Op::Insert { k, ver, w, loc, .. } if !cx.phantom_insert(*k, *loc) => (*k, *ver, *w),
            Op::Fetch { k, .. } if r.res.tag == Res::HIT && r.res.aux == 1 && !(cx.filter_mod > 0 && k % cx.filter_mod == cx.filter_mod - 1) => {
                (*k, r.res.ver, r.res.w)
            }
            Op::Resize { .. } if r.res.tag == Res::TRUE => {
                // bound re-established per shard unless pinned
                for s in 0..cx.shards {
                    let cap_s = shard_capacity_for(m.cap, cx.shards, s);
                    let usage_s: usize = m.live.iter().filter(|((k, _), _)| cx.shard_of(*k) == s).map(|(_, w)| *w as usize).sum();
                    if usage_s > cap_s {
                        let all_pinned = m.live.iter().filter(|((k, _), _)| cx.shard_of(*k) == s).all(|((k, v), _)| {
                            cx.algo == 1 && held.contains(&(*k, *v))
                        });
                        if !all_pinned {
                            cx.v(
                                "resize-bound",
                                format!("after resize to {}: shard {s} holds {usage_s} > capacity {cap_s} with evictable entries", m.cap),
                                &[("algo", cx.algo_name())],
                            );
                            return;
                        }
                    }
                }
                continue;
            }
            _ => continue,
        };
        let s = cx.shard_of(wk);
        let cap_s = shard_capacity_for(before.cap, cx.shards, s);
        let usage_before: usize =
            before.live.iter().filter(|((k, _), _)| cx.shard_of(*k) == s).map(|(_, w)| *w as usize).sum();
        let mut freed = 0usize;
        for (ek, ev, ew, reason) in left.iter() {
            if *reason != 0 || cx.shard_of(*ek) != s {
                continue;
            }
            hist::probe("c05_eviction_checked");
            hist::set_nontrivial();
            if usage_before - freed + ww as usize <= cap_s {
                cx.v(
                    "over-eviction",
                    format!(
                        "insert of ({wk},v{wv},w{ww}) evicted ({ek},v{ev},w{ew}) although usage {} + {ww} <= shard capacity {cap_s}",
                        usage_before - freed
                    ),
                    &[("algo", cx.algo_name()), ("after_clear", had_clear_before(cx, i).to_string())],
                );
                return;
            }
            freed += *ew as usize;
        }
        // afterwards: within capacity unless everything else is unevictable or the entry alone is too large
        let usage_after: usize = m.live.iter().filter(|((k, _), _)| cx.shard_of(*k) == s).map(|(_, w)| *w as usize).sum();
        if usage_after > cap_s && ww as usize <= cap_s {
            let others_pinned = m.live.iter().filter(|((k, v), _)| cx.shard_of(*k) == s && !(*k == wk && *v == wv)).all(
                |((k, v), _)| cx.algo == 1 && held.contains(&(*k, *v)),
            );
            if !others_pinned {
                cx.v(
                    "under-eviction",
                    format!(
                        "after insert of ({wk},v{wv},w{ww}) shard {s} holds {usage_after} > capacity {cap_s} while evictable entries remain"
                    ),
                    &[("algo", cx.algo_name()), ("touch", had_touch(cx).to_string())],
                );
                return;
            }
        }
    }
    release_insert_bound(cx);
}

/// Versions that MAY be pinned under LRU at sequence number `seq`: some handle (of any kind) is outstanding and the
/// version has been looked up at some point (an over-approximation, used only to excuse, never to accuse: LRU keeps a
/// looked-up record pinned until its reference count reaches zero, whichever handles make up that count).
fn pinned_at(cx: &Ctx, seq: u64) -> BTreeSet<(u64, u32)> {
    let mut open: BTreeMap<(u64, u32), i64> = BTreeMap::new();
    let mut looked: BTreeSet<(u64, u32)> = BTreeSet::new();
    let mut touched: BTreeSet<u64> = BTreeSet::new();
    for e in cx.evs.iter().filter(|e| e.seq <= seq + 1) {
        match e.kind {
            "handle_obtain" => *open.entry((e.a, e.b as u32)).or_insert(0) += 1,
            "handle_drop" => *open.entry((e.a, e.b as u32)).or_insert(0) -= 1,
            "lookup" => {
                if e.c == 1 {
                    touched.insert(e.a);
                } else {
                    looked.insert((e.a, e.b as u32));
                }
            }
            _ => {}
        }
    }
    open.into_iter().filter(|(kv, c)| *c > 0 && (looked.contains(kv) || touched.contains(&kv.0))).map(|(k, _)| k).collect()
}

fn opname(op: &Op) -> String {
    format!("{op:?}").split(|c: char| !c.is_alphanumeric()).next().unwrap_or("").to_string()
}

fn had_clear(cx: &Ctx) -> bool {
    cx.log.oplog.iter().any(|r| matches!(r.op, Op::Clear))
}
fn had_clear_before(cx: &Ctx, i: usize) -> bool {
    cx.log.oplog.iter().take(i).any(|r| matches!(r.op, Op::Clear))
}
fn had_touch(cx: &Ctx) -> bool {
    cx.log.oplog.iter().any(|r| matches!(r.op, Op::Touch { .. }) && r.res.tag == Res::TRUE)
}

fn release_insert_bound(cx: &Ctx) {
    if let Some((usage, cap)) = cx.log.usage_after_release_insert {
        hist::probe("release_insert_checked");
        if usage > cap {
            cx.v(
                "leak-after-release",
                format!("no handles outstanding, one more insert per shard done, yet usage {usage} > capacity {cap}"),
                &[("algo", cx.algo_name()), ("touch", had_touch(cx).to_string()), ("after_clear", had_clear(cx).to_string())],
            );
        }
    }
}

// ---------------------------------------------------------------------------------------------------------------
// C18: handles pin what they reference; outdatedness is truthful; nothing leaks.

fn c18(cx: &Ctx) {
    handles_unchanged(cx);
    // LRU: a looked-up, still held entry is never an eviction victim
    if cx.algo == 1 {
        // pinned intervals per version, from the executor's handle_obtain / handle_drop events (looked-up handles
        // only; the obtain event is logged after the lookup returned, so intervals are never wider than reality)
        let mut open: BTreeMap<(u64, u32), i64> = BTreeMap::new();
        let mut since: BTreeMap<(u64, u32), u64> = BTreeMap::new();
        let mut pinned: Vec<(u64, u32, u64, u64)> = vec![];
        for e in cx.evs.iter().filter(|e| (e.kind == "handle_obtain" || e.kind == "handle_drop") && e.c == 1) {
            let key = (e.a, e.b as u32);
            let c = open.entry(key).or_insert(0);
            if e.kind == "handle_obtain" {
                if *c == 0 {
                    since.insert(key, e.seq);
                }
                *c += 1;
            } else {
                *c -= 1;
                if *c == 0 {
                    if let Some(s) = since.remove(&key) {
                        pinned.push((key.0, key.1, s, e.seq));
                    }
                }
            }
        }
        for ((k, v), s) in since {
            pinned.push((k, v, s, u64::MAX));
        }
        for (k, v, from, to) in &pinned {
            hist::probe("c18_pin_interval");
            for e in cx.evs.iter().filter(|e| e.kind == "leave" && e.a == 0 && e.b == *k && e.c as u32 == *v) {
                if e.seq > *from && e.seq < *to {
                    cx.v(
                        "lru-evicted-pinned",
                        format!("LRU evicted ({k},v{v}) at event {} while a looked-up handle was held [{from}..{to}]", e.seq),
                        &[],
                    );
                }
            }
        }
    }
    release_insert_bound(cx);
    // is_outdated truthfulness at the final quiescent point: compare with an actual lookup
    if cx.case.get("sweep") != 0 && !cx.log.sweep.is_empty() {
        for h in &cx.log.final_held {
            let found = cx.log.sweep.get(h.k as usize).copied().flatten().map(|(v, _)| v);
            let expect_outdated = found != Some(h.ver);
            hist::probe("c18_outdated_checked");
            if expect_outdated {
                hist::set_nontrivial();
            }
            if h.outdated != expect_outdated {
                cx.v(
                    "is-outdated-untruthful",
                    format!(
                        "handle ({},v{}) reports is_outdated() = {} but a lookup of the key returns {:?}",
                        h.k, h.ver, h.outdated, found
                    ),
                    &[("expected", expect_outdated.to_string())],
                );
            }
        }
    }
    // stepwise (single client): compare with the sequential model at every step
    if cx.case.clients.len() == 1 && cx.case.get("stepwise") != 0 {
        let mut m = Model { live: BTreeMap::new(), cap: cx.case.get("cap") as usize };
        for (i, r) in cx.log.oplog.iter().enumerate() {
            apply(cx, &mut m, r);
            if let Some(s) = cx.log.snaps.get(i) {
                for h in &s.held {
                    let live = m.live.contains_key(&(h.k, h.ver));
                    let findable = s.contains[h.k as usize];
                    // only judge when the model and the observation agree on whether the key is present
                    let vs = m.live.range((h.k, 0)..=(h.k, u32::MAX)).count();
                    if (vs > 0) != findable || vs > 1 {
                        hist::probe("c18_model_unknown");
                        continue;
                    }
                    hist::probe("c18_outdated_step_checked");
                    if h.outdated == live {
                        cx.v(
                            "is-outdated-untruthful",
                            format!(
                                "after op #{i} {:?}: handle ({},v{}) reports is_outdated() = {} but that version is {}",
                                r.op,
                                h.k,
                                h.ver,
                                h.outdated,
                                if live { "still what a lookup returns" } else { "no longer what a lookup returns" }
                            ),
                            &[("expected", (!live).to_string())],
                        );
                        return;
                    }
                }
            }
        }
    }
}

// ---------------------------------------------------------------------------------------------------------------
// C11: an explicit insert is not overwritten by an older in-flight fetch.

fn c11(cx: &Ctx) {
    let orgs = origins(cx.evs);
    for r in &cx.log.oplog {
        let Op::Insert { k, ver, .. } = &r.op else { continue };
        // a phantom insert (rejected by the filter / advised on-disk) closes the in-flight round just like any other
        // insert; every fetch has its own version, so "the late result" stays identifiable
        for o in orgs.iter().filter(|o| o.k == *k) {
            // the fetch was in flight when the insert was invoked and its origin had not resolved when the insert
            // returned (it resolves later, or is abandoned)
            if !(o.start < r.inv && o.done > r.ret && o.dropped > r.inv && !o.failed) {
                continue;
            }
            hist::probe("c11_premise");
            hist::set_nontrivial();
            // (1)+(2): the late result must never be delivered to anybody nor be found in the cache
            for q in &cx.log.oplog {
                if q.res.tag == Res::HIT && q.res.key == *k && q.res.ver == o.ver {
                    let what = match &q.op {
                        Op::Fetch { .. } if q.inv < r.inv => "waiter-got-late-fetch",
                        _ => "late-fetch-replaced-insert",
                    };
                    cx.v(
                        what,
                        format!(
                            "insert({k},v{ver}) returned at {} while the fetch of v{} was waiting on its origin (resolved at {}); yet {:?} by client {} returned v{}",
                            r.ret, o.ver, o.done, q.op, q.client, o.ver
                        ),
                        &[("algo", cx.algo_name())],
                    );
                    return;
                }
            }
            if let Some(Some((v, _))) = cx.log.sweep.get(*k as usize) {
                if *v == o.ver {
                    cx.v(
                        "late-fetch-replaced-insert",
                        format!(
                            "insert({k},v{ver}) returned at {} while the fetch of v{} was waiting on its origin (resolved at {}); at the end the cache holds v{}",
                            r.ret, o.ver, o.done, o.ver
                        ),
                        &[("algo", cx.algo_name())],
                    );
                    return;
                }
            }
            // (1) waiters registered before the insert must not fail
            for q in &cx.log.oplog {
                if let Op::Fetch { k: qk, .. } = &q.op {
                    if qk == k && q.inv < r.inv && q.ret > r.ret && q.res.tag == Res::ERR {
                        let excused = orgs.iter().any(|p| p.k == *k && p.failed && p.done > q.inv && p.done < q.ret);
                        if !excused {
                            cx.v(
                                "waiter-failed-despite-insert",
                                format!("fetch by client {} waiting across insert({k},v{ver}) returned an error", q.client),
                                &[],
                            );
                        }
                    }
                }
            }
        }
    }
}

// ---------------------------------------------------------------------------------------------------------------
// C06 (memory part): coalescing and answers.

fn c06(cx: &Ctx) {
    let orgs = origins(cx.evs);
    // (1) at most one origin fetch per key at a time
    for (i, a) in orgs.iter().enumerate() {
        for b in orgs.iter().skip(i + 1) {
            if a.k != b.k {
                continue;
            }
            let end = |o: &Origin| {
                let mut e = o.done.min(o.dropped);
                // orphaned by an explicit insert or by a cancellation: foyer lets it run out
                // the round exists from the invocation of the fetch that owns the origin (the origin itself is first
                // polled later, by the fetch task): an insert that returns after that may have closed the round
                let registered = cx.log.oplog.iter().find(|q| matches!(&q.op, Op::Fetch { k, ver, .. } if *k == o.k && *ver == o.ver)).map(|q| q.inv).unwrap_or(o.start);
                for r in &cx.log.oplog {
                    match &r.op {
                        Op::Insert { k, .. } if *k == o.k && r.ret > registered => e = e.min(r.inv.max(registered)),
                        Op::Ctl { what: 1, .. } if r.inv > o.start => e = e.min(r.inv),
                        _ => {}
                    }
                }
                e
            };
            let (ea, eb) = (end(a), end(b));
            hist::probe("c06_pair_checked");
            if a.start < eb && b.start < ea {
                cx.v(
                    "concurrent-origin-fetches",
                    format!(
                        "key {}: origin v{} ran [{}..{}] while origin v{} ran [{}..{}]",
                        a.k, a.ver, a.start, ea, b.ver, b.start, eb
                    ),
                    &[],
                );
                return;
            }
        }
    }
    // (3)/(4) every answer is explained
    let inserted: BTreeSet<(u64, u32)> = cx
        .log
        .oplog
        .iter()
        .filter_map(|r| if let Op::Insert { k, ver, .. } = &r.op { Some((*k, *ver)) } else { None })
        .collect();
    let mut overlapping = 0;
    for r in &cx.log.oplog {
        let Op::Fetch { k, .. } = &r.op else { continue };
        if cx.log.oplog.iter().any(|q| matches!(&q.op, Op::Fetch{k: qk, ..} if qk == k) && (q.client, q.idx) != (r.client, r.idx) && q.inv < r.ret && r.inv < q.ret) {
            overlapping += 1;
        }
        match r.res.tag {
            Res::HIT => {
                let from_origin = orgs.iter().find(|o| o.k == *k && o.ver == r.res.ver);
                if let Some(o) = from_origin {
                    if o.failed {
                        cx.v("failed-fetch-cached", format!("fetch of key {k} returned v{} whose origin failed", o.ver), &[]);
                    } else if o.done == u64::MAX || o.done > r.ret {
                        cx.v(
                            "answer-before-origin",
                            format!("fetch of key {k} returned v{} before its origin resolved", o.ver),
                            &[],
                        );
                    }
                } else if !inserted.contains(&(*k, r.res.ver)) {
                    cx.v("unexplained-answer", format!("fetch of key {k} returned unknown v{}", r.res.ver), &[]);
                }
            }
            Res::ERR => {
                // the origin's error reaches every caller that joined the round before it was torn down; the tear-down
                // precedes the return of the callers that were waiting when the origin failed
                let excused_fail = orgs.iter().any(|o| {
                    o.k == *k
                        && o.failed
                        && o.done < r.ret
                        // a round that an explicit insert closed before this caller was even invoked is not this
                        // caller's round: its late failure must not reach the callers of a later round
                        && !cx.log.oplog.iter().any(|ins| matches!(&ins.op, Op::Insert { k: ik, .. } if ik == k) && ins.inv > o.start && ins.ret < r.inv && ins.ret < o.done)
                        && (o.done > r.inv
                            || cx.log.oplog.iter().any(|q| {
                                matches!(&q.op, Op::Fetch { k: qk, .. } if qk == k)
                                    && q.res.tag == Res::ERR
                                    && q.res.aux == 1
                                    && q.inv < o.done
                                    && q.ret > r.inv
                            }))
                });
                // a cancelled fetch task is dropped at its next poll, whenever that is: every caller that joined its
                // round before then receives the cancellation, including callers that arrived after the abort call
                let excused_abort = cx.log.oplog.iter().any(|q| matches!(&q.op, Op::Ctl { what: 1, .. }) && q.inv < r.ret);
                let ok = match r.res.aux {
                    1 => excused_fail,
                    2 => excused_abort,
                    _ => false,
                };
                if !ok {
                    cx.v(
                        "unexplained-error",
                        format!(
                            "fetch of key {k} by client {} failed with error kind {} but {}",
                            r.client,
                            r.res.aux,
                            match r.res.aux {
                                1 => "no origin of that key failed in its window",
                                2 => "no fetch task was cancelled before it returned",
                                _ => "that kind is neither the origin's error nor a cancellation",
                            }
                        ),
                        &[("kind", r.res.aux.to_string())],
                    );
                }
            }
            _ => {}
        }
    }
    if overlapping >= 2 {
        hist::set_nontrivial();
    }
    // (4) a failed fetch caches nothing
    for o in orgs.iter().filter(|o| o.failed) {
        for q in &cx.log.oplog {
            if q.res.tag == Res::HIT && q.res.key == o.k && q.res.ver == o.ver {
                cx.v("failed-fetch-cached", format!("v{} of key {} came from a failed origin yet was returned", o.ver, o.k), &[]);
            }
        }
    }
}

// ---------------------------------------------------------------------------------------------------------------
// C13: each entry leaves memory exactly once, with the right reason and disk hand-off.

/// C13, observed without the listener: in single-client stepwise runs the set of findable keys is sampled after every
/// operation. A key that stops being findable during an operation that is not its own removal left by capacity
/// eviction and must have been offered to the disk tier exactly once in that operation's window; a key that stops being
/// findable because it was removed, cleared or replaced by a disk-only version must not have been offered.
fn c13_stepwise_offers(cx: &Ctx) {
    if cx.case.get("pipe") == 0 || cx.case.clients.len() != 1 || cx.log.snaps.is_empty() {
        return;
    }
    // resident version per key as the operation results imply it
    let mut resident: BTreeMap<u64, u32> = BTreeMap::new();
    let mut before: Vec<bool> = vec![false; cx.keys as usize];
    for r in &cx.log.oplog {
        let Some(snap) = cx.log.snaps.iter().find(|s| s.after == (r.client, r.idx)) else { continue };
        let prev_resident = resident.clone();
        match &r.op {
            Op::Insert { k, ver, loc, .. } => {
                if cx.phantom_insert(*k, *loc) {
                    resident.remove(k);
                } else {
                    resident.insert(*k, *ver);
                }
            }
            Op::Fetch { k, .. } if r.res.tag == Res::HIT => {
                let phantom = cx.filter_mod > 0 && k % cx.filter_mod == cx.filter_mod - 1;
                if !phantom {
                    resident.insert(*k, r.res.ver);
                }
            }
            Op::Remove { k } => {
                resident.remove(k);
            }
            Op::Clear => resident.clear(),
            _ => {}
        }
        for k in 0..cx.keys {
            let (was, is) = (before[k as usize], snap.contains.get(k as usize).copied().unwrap_or(false));
            if !(was && !is) {
                continue;
            }
            let Some(ver) = prev_resident.get(&k).copied() else { continue };
            let offers = cx.evs.iter().filter(|e| e.kind == "pipe" && e.b == k && e.c == ver as u64 && e.seq > r.inv && e.seq < r.ret).count();
            let own_removal = match &r.op {
                Op::Remove { k: rk } => *rk == k,
                Op::Clear => true,
                Op::Insert { k: ik, loc, .. } => *ik == k && cx.phantom_insert(*ik, *loc),
                Op::Fetch { k: fk, .. } => *fk == k,
                _ => false,
            };
            hist::probe("c13_stepwise_departure_checked");
            if own_removal {
                if matches!(r.op, Op::Fetch { .. }) {
                    continue;
                }
                if offers != 0 {
                    cx.v("removed-or-replaced-entry-offered", format!("entry ({k},v{ver}) stopped being findable because of {:?}, yet it was offered to the disk tier {offers} time(s)", r.op), &[("count", offers.to_string())]);
                }
            } else if matches!(r.op, Op::Insert { .. } | Op::Resize { .. } | Op::EvictAll | Op::Flush) && offers != 1 {
                // (a fetch is left out: its insertion runs in the fetch task, whose hand-offs may come after the caller
                // has been answered)
                cx.v(
                    "evicted-entry-offer-count",
                    format!("entry ({k},v{ver}) was evicted during {:?} (findable before, not after, not removed or replaced) and was offered to the disk tier {offers} times", r.op),
                    &[("count", offers.to_string()), ("listener", (cx.case.get("no_listener") == 0).to_string())],
                );
            }
        }
        before = snap.contains.clone();
        before.resize(cx.keys as usize, false);
    }
}

fn c13(cx: &Ctx) {
    c13_stepwise_offers(cx);
    if cx.case.get("no_listener") != 0 {
        // without a listener there are no leave notifications to judge
        return;
    }
    let orgs = origins(cx.evs);
    let piped = cx.case.get("pipe") != 0;
    // admitted versions
    #[derive(Default, Debug)]
    struct Adm {
        phantom: bool,
        written_at: u64,
        leaves: Vec<(u64, u64)>, // (seq, reason)
        pipes: Vec<u64>,
        known: bool,
    }
    let mut adm: BTreeMap<(u64, u32), Adm> = BTreeMap::new();
    for r in &cx.log.oplog {
        if let Op::Insert { k, ver, loc, .. } = &r.op {
            let a = adm.entry((*k, *ver)).or_default();
            a.phantom = cx.phantom_insert(*k, *loc);
            a.written_at = r.inv;
            a.known = true;
        }
    }
    for o in &orgs {
        if o.done != u64::MAX && !o.failed {
            let a = adm.entry((o.k, o.ver)).or_default();
            a.phantom = cx.filter_mod > 0 && o.k % cx.filter_mod == cx.filter_mod - 1;
            a.written_at = o.done;
            // whether the fetch task really inserted it is not observable (round may have been closed); only
            // versions that were observed count as admitted
            a.known = cx.log.oplog.iter().any(|q| q.res.tag == Res::HIT && q.res.key == o.k && q.res.ver == o.ver);
        }
    }
    for e in cx.evs {
        match e.kind {
            "leave" => adm.entry((e.b, e.c as u32)).or_default().leaves.push((e.seq, e.a)),
            "pipe" => adm.entry((e.b, e.c as u32)).or_default().pipes.push(e.seq),
            _ => {}
        }
    }
    let drop_at = cx.evs.iter().find(|e| e.kind == "cache_drop").map(|e| e.seq).unwrap_or(u64::MAX);
    for ((k, ver), a) in &adm {
        if *k >= cx.keys {
            continue; // harness-internal keys
        }
        hist::probe("c13_version_checked");
        if a.phantom {
            // disk-only / filter-rejected entry: handed to the disk tier exactly once when its last handle is dropped
            if piped && a.known && a.pipes.len() != 1 {
                cx.v(
                    "phantom-offer-count",
                    format!("disk-only entry ({k},v{ver}) was offered to the disk tier {} times", a.pipes.len()),
                    &[("count", a.pipes.len().to_string())],
                );
            }
            continue;
        }
        if a.known && a.leaves.len() != 1 {
            cx.v(
                "leave-count",
                format!("entry ({k},v{ver}) produced {} leave notifications: {:?}", a.leaves.len(), a.leaves),
                &[("count", a.leaves.len().min(2).to_string()), ("algo", cx.algo_name())],
            );
            continue;
        }
        if !a.known && a.leaves.len() > 1 {
            cx.v("leave-count", format!("entry ({k},v{ver}) produced {} leave notifications", a.leaves.len()), &[("count", "2".into())]);
            continue;
        }
        let Some((lseq, reason)) = a.leaves.first().copied() else { continue };
        hist::set_nontrivial();
        // none while a lookup can still find it: a lookup invoked after the notification must not return it
        for q in &cx.log.oplog {
            if q.res.tag == Res::HIT && q.res.key == *k && q.res.ver == *ver && q.inv > lseq && matches!(q.op, Op::Get { .. } | Op::Fetch { .. } | Op::Remove { .. }) {
                cx.v(
                    "left-but-findable",
                    format!("entry ({k},v{ver}) left at {lseq} (reason {reason}) but {:?} invoked at {} still found it", q.op, q.inv),
                    &[("reason", reason.to_string())],
                );
            }
        }
        // the reason matches what happened
        let in_window = |pred: &dyn Fn(&OpRec) -> bool| cx.log.oplog.iter().any(|q| pred(q) && q.inv < lseq && lseq < q.ret);
        match reason {
            1 => {
                let by_insert = in_window(&|q| matches!(&q.op, Op::Insert { k: qk, ver: qv, .. } if qk == k && qv != ver));
                let by_fetch = orgs.iter().any(|o| o.k == *k && o.ver != *ver && o.done != u64::MAX && o.done < lseq);
                if !by_insert && !by_fetch {
                    cx.v("wrong-reason", format!("entry ({k},v{ver}) left with Replace at {lseq} but nothing replaced it"), &[("reason", "replace".into())]);
                }
            }
            2 => {
                if !in_window(&|q| matches!(&q.op, Op::Remove { k: qk } if qk == k) && q.res.tag == Res::HIT && q.res.ver == *ver) {
                    cx.v("wrong-reason", format!("entry ({k},v{ver}) left with Remove at {lseq} outside a remove of it"), &[("reason", "remove".into())]);
                }
            }
            3 => {
                if !(lseq > drop_at || in_window(&|q| matches!(q.op, Op::Clear))) {
                    cx.v("wrong-reason", format!("entry ({k},v{ver}) left with Clear at {lseq} outside clear()/drop"), &[("reason", "clear".into())]);
                }
            }
            _ => {
                // Evict: not inside a remove of that very version, not by clear/drop
                if lseq > drop_at && cx.evs.iter().all(|e| !(e.kind == "leave" && e.seq < drop_at)) {
                    // nothing to say
                }
                if in_window(&|q| matches!(&q.op, Op::Remove { k: qk } if qk == k) && q.res.tag == Res::HIT && q.res.ver == *ver) {
                    cx.v("wrong-reason", format!("entry ({k},v{ver}) was removed but left with Evict"), &[("reason", "evict".into())]);
                }
                // a disk-only (phantom) insert of the same key replaces the resident copy; it is not admitted, so it
                // evicts nothing: with one client the resident copy can only leave as Replace
                if cx.case.clients.len() == 1 && in_window(&|q| matches!(&q.op, Op::Insert { k: qk, ver: qv, loc, .. } if qk == k && qv != ver && cx.phantom_insert(*qk, *loc))) {
                    cx.v("wrong-reason", format!("entry ({k},v{ver}) was replaced by a disk-only insert of its key but left with Evict"), &[("reason", "evict-on-phantom-replace".into())]);
                }
                if cx.case.clients.len() == 1 {
                    // single client: an Evict notification can only come from an op that evicts
                    let ok = in_window(&|q| {
                        matches!(q.op, Op::Insert { .. } | Op::Fetch { .. } | Op::Resize { .. } | Op::EvictAll | Op::Flush)
                    });
                    // an insert of the same key with enough room replaces, it does not evict; leave that to usage rules
                    if !ok && lseq < drop_at {
                        cx.v("wrong-reason", format!("entry ({k},v{ver}) left with Evict at {lseq} outside any evicting operation"), &[("reason", "evict".into())]);
                    }
                }
            }
        }
        // disk hand-off
        if piped {
            let want = if reason == 0 { 1 } else { 0 };
            if a.pipes.len() != want {
                cx.v(
                    "pipe-offer-count",
                    format!(
                        "entry ({k},v{ver}) left with reason {reason} and was offered to the disk tier {} times (expected {want})",
                        a.pipes.len()
                    ),
                    &[("reason", reason.to_string()), ("count", a.pipes.len().to_string())],
                );
            }
        }
    }
}

// ---------------------------------------------------------------------------------------------------------------
// Ample-capacity mode (C17): with room for everything no entry may get lost.

fn ample_no_loss(cx: &Ctx) {
    if cx.case.get("ample") == 0 || cx.case.clients.len() != 1 {
        return;
    }
    let mut m = Model { live: BTreeMap::new(), cap: cx.case.get("cap") as usize };
    for r in cx.log.oplog.iter() {
        let before = m.clone();
        apply(cx, &mut m, r);
        if let Op::Get { k, .. } = &r.op {
            let vs: Vec<_> = before.live.range((*k, 0)..=(*k, u32::MAX)).map(|(kv, _)| kv.1).collect();
            if let Some(v) = vs.last() {
                hist::probe("c17_ample_get");
                hist::set_nontrivial();
                if r.res.tag != Res::HIT || r.res.ver != *v {
                    cx.v(
                        "colliding-entry-lost",
                        format!("capacity is ample, ({k},v{v}) was inserted and not removed, yet get({k}) returned {:?}", r.res),
                        &[],
                    );
                }
            }
        }
    }
}
