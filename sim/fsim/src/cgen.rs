//! Case generation dispatch.
use crate::{choice::Rng, types::Case};

pub fn generate(prop: &str, thorough: bool, rng: &mut Rng) -> Case {
    // properties with a memory-only and a hybrid part: a third of the runs exercise the hybrid cache
    if matches!(prop, "C06" | "C11" | "C16" | "C17") && rng.chance(1, 3) {
        return crate::hybgen::generate(prop, thorough, rng);
    }
    match prop {
        "C02" | "C05" | "C11" | "C13" | "C16" | "C18" => crate::memgen::generate(prop, thorough, rng),
        "C06" | "C17" => crate::memgen::generate(prop, thorough, rng),
        "C01" | "C03" | "C04" | "C07" | "C08" | "C09" | "C10" | "C12" | "C15" => crate::hybgen::generate(prop, thorough, rng),
        other => panic!("fsim: no generator for {other}"),
    }
}

/// Probes that should fire at least once in a batch; reported as gaps when stuck at zero.
pub fn expected_probes(prop: &str) -> Vec<&'static str> {
    match prop {
        "C01" => vec!["served_from_disk", "current_of_multi_version_key_served", "block_cleaned", "stale_excused_by_shed", "final_sweep_hit"],
        "C12" => vec!["c12_written_version_checked", "c12_licence_with_barrier", "c12_ondisk_checked", "c12_held_fetch_blocked", "c12_young_eviction_no_licence", "loaded_age_old"],
        "C15" => vec!["c15_resident_checked"],
        "C07" => vec!["c07_checkpoint", "c07_block_compared", "c07_claimed_key_loaded", "c07_recovered_key_checked", "block_cleaned", "shed_larger_than_max_entry"],
        "C09" => vec!["c09_clean", "c09_data_write_checked", "c09_fifo_pair", "c09_close_returned", "c09_reinsertion_checked", "served_from_disk"],
        "C08" => vec!["c08_lookup", "c08_loaded_from_disk", "c08_loaded_from_write_queue", "c08_header_checked", "c08_rejected_as_a_whole", "shed_buffer_size_limit", "shed_larger_than_max_entry"],
        "C03" => vec!["c03_lookup_judged", "c03_lookup_error", "served_from_disk"],
        "C04" => vec!["c04_key_judged", "c04_acked_key_judged", "c04_weak_clause_only"],
        "C10" => vec!["served_from_disk", "final_sweep_hit"],
        "C02" => vec!["lin_checked"],
        "C05" => vec!["c05_sweep", "c05_step_checked", "c05_eviction_checked", "release_insert_checked", "c05_fill"],
        "C06" => vec!["c06_pair_checked"],
        "C11" => vec!["c11_premise"],
        "C13" => vec!["c13_version_checked"],
        "C16" => vec!["callback_checked", "reenter"],
        "C17" => vec!["lin_checked", "c17_ample_get"],
        "C18" => vec!["c18_pin_interval", "c18_outdated_checked", "c18_outdated_step_checked", "release_insert_checked"],
        _ => vec![],
    }
}
