//! One simulated run = one fresh OS thread = one shuttle execution driven by the choice streams.

use std::{cell::RefCell, collections::BTreeMap, panic};

use serde::{Deserialize, Serialize};

use crate::{
    choice::{self, Stream, Streams},
    hist::{self, Violation},
    sched::{self, ChoiceScheduler, SchedStats},
    types::Case,
};

#[derive(Clone, Debug, Serialize, Deserialize)]
pub enum StreamSrc {
    Seed(u64),
    Replay(Vec<u32>),
}

#[derive(Clone, Debug)]
pub struct RunInput {
    pub case: Case,
    pub sched: StreamSrc,
    pub io: StreamSrc,
}

#[derive(Clone, Debug, Default)]
pub struct RunOutput {
    pub violations: Vec<Violation>,
    /// harness error (panic outside /repo, nondeterminism, ...): never a verdict
    pub harness_error: Option<String>,
    pub sched_record: Vec<u32>,
    pub io_record: Vec<u32>,
    pub stats: SchedStats,
    pub events: u64,
    pub order_hash: u64,
    pub nontrivial: bool,
    pub probes: BTreeMap<String, u64>,
    pub faults: BTreeMap<String, u64>,
    pub notes: Vec<String>,
    pub panic_msg: Option<String>,
}

thread_local! {
    static LAST_PANIC: RefCell<Option<(String, String)>> = const { RefCell::new(None) };
    /// Set by a scenario when everything it wanted to observe in the current execution has been observed and only
    /// the tear-down of the simulated runtime remains. Cancelling tasks that are suspended in the middle of a poll lets
    /// them run on against state another cancelled task left half-updated (exactly what a real runtime shutdown does);
    /// a panic in that phase is an artefact of the shutdown, not a verdict.
    pub static PHASE_DONE: std::cell::Cell<bool> = const { std::cell::Cell::new(false) };
    /// Follow-up executions requested by the scenario (each runs in a fresh shuttle execution on this OS thread,
    /// sharing the simulated disk, the history and the choice streams): e.g. one recovery per crash image.
    pub static FOLLOW_UPS: RefCell<std::collections::VecDeque<FollowUp>> = RefCell::new(std::collections::VecDeque::new());
}

pub struct FollowUp {
    pub label: String,
    pub job: Box<dyn FnOnce() + Send + 'static>,
}

pub fn phase_done() {
    PHASE_DONE.with(|p| p.set(true));
}

pub fn push_follow_up(label: String, job: Box<dyn FnOnce() + Send + 'static>) {
    FOLLOW_UPS.with(|f| f.borrow_mut().push_back(FollowUp { label, job }));
}

/// Must be called once at process start (after a first shuttle execution installed shuttle's own hook, which we
/// replace: it prints and persists schedules we do not use).
pub fn install_panic_hook() {
    // let shuttle install its hook first so that it never wraps ours
    let r = panic::catch_unwind(|| {
        let mut cfg = shuttle::Config::new();
        cfg.failure_persistence = shuttle::FailurePersistence::None;
        cfg.silence_warnings = true;
        shuttle::Runner::new(shuttle::scheduler::RandomScheduler::new_from_seed(1, 1), cfg).run(|| {});
    });
    let _ = r;
    let debug = std::env::var("VERIF_DEBUG").is_ok();
    panic::set_hook(Box::new(move |info| {
        let loc = info.location().map(|l| format!("{}:{}", l.file(), l.line())).unwrap_or_default();
        let msg = if let Some(s) = info.payload().downcast_ref::<&str>() {
            s.to_string()
        } else if let Some(s) = info.payload().downcast_ref::<String>() {
            s.clone()
        } else {
            "<non-string panic>".to_string()
        };
        if debug {
            eprintln!("[fsim panic] {msg} at {loc}");
        }
        if std::env::var("VERIF_BACKTRACE").is_ok() {
            eprintln!("[fsim panic] {msg} at {loc}\n{}", std::backtrace::Backtrace::force_capture());
        }
        LAST_PANIC.with(|p| {
            let mut p = p.borrow_mut();
            if p.is_none() {
                *p = Some((msg, loc));
            }
        });
    }));
}

fn add_stats(total: &mut SchedStats) {
    sched::STATS.with(|s| {
        let s = s.borrow();
        total.steps += s.steps;
        total.choice_points += s.choice_points;
        total.switches += s.switches;
        total.sched_hash = choice::mix2(total.sched_hash, s.sched_hash);
        total.max_runnable = total.max_runnable.max(s.max_runnable);
    });
}

fn dispatch(case: &Case) {
    match case.scenario.as_str() {
        "mem" => crate::memscn::exec(case),
        "hyb" => crate::hybscn::exec(case),
        "c08" => crate::c08scn::exec(case),
        other => panic!("fsim: unknown scenario {other}"),
    }
}

fn oracle(case: &Case) {
    match case.scenario.as_str() {
        "mem" => {
            let log = crate::memscn::LOG.with(|l| std::mem::take(&mut *l.borrow_mut()));
            let evs = hist::events_clone();
            crate::memoracle::check(case, &log, &evs);
        }
        "hyb" => crate::hybscn::oracle(case),
        _ => {}
    }
}

fn run_on_this_thread(input: RunInput) -> RunOutput {
    hist::reset();
    foyer_common::verif::reset();
    foyer_common::spawn::Spawner::verif_reset();
    LAST_PANIC.with(|p| *p.borrow_mut() = None);
    let mk = |s: &StreamSrc| match s {
        StreamSrc::Seed(x) => Stream::fresh(*x),
        StreamSrc::Replay(v) => Stream::replay(v.clone()),
    };
    let mut streams = Streams { sched: mk(&input.sched), io: mk(&input.io) };
    streams.sched.zero_bias = input.case.get("sched_bias").clamp(0, 63) as u32;
    choice::install(streams);

    let mut cfg = shuttle::Config::new();
    cfg.stack_size = 1 << 20;
    cfg.failure_persistence = shuttle::FailurePersistence::None;
    cfg.silence_warnings = true;
    let max_steps = input.case.get("max_steps").max(10_000) as usize;
    cfg.max_steps = shuttle::MaxSteps::FailAfter(max_steps);
    cfg.ungraceful_shutdown_config.immediately_return_on_panic = true;

    let case = input.case.clone();
    let mut out = RunOutput::default();
    let prop = input.case.property.clone();
    FOLLOW_UPS.with(|f| f.borrow_mut().clear());
    let mut total_stats = SchedStats::default();
    // classify the outcome of one execution; returns false if the run must stop
    let mut classify = |res: std::thread::Result<()>, label: &str, out: &mut RunOutput| -> bool {
        match res {
            Ok(()) => true,
            Err(_) => {
                let (msg, loc) = LAST_PANIC.with(|p| p.borrow_mut().take()).unwrap_or_default();
                if PHASE_DONE.with(|p| p.get()) {
                    // tear-down artefact (see PHASE_DONE)
                    hist::probe("panic_during_teardown_ignored");
                    return true;
                }
                out.panic_msg = Some(format!("{msg} at {loc}"));
                if msg.starts_with("deadlock!") {
                    hist::violation(
                        &prop,
                        "deadlock",
                        format!("{label}: all simulated tasks blocked: {}", msg.chars().take(400).collect::<String>()),
                        &[],
                    );
                } else if msg.starts_with("exceeded max_steps") {
                    hist::violation(&prop, "step-bound", format!("{label}: no completion within {max_steps} scheduling steps"), &[]);
                } else if loc.starts_with("/repo/") {
                    hist::violation(
                        &prop,
                        "repo-panic",
                        format!("{label}: panic inside foyer: {} at {loc}", msg.chars().take(300).collect::<String>()),
                        &[("at", loc.clone())],
                    );
                } else {
                    out.harness_error = Some(format!("{label}: panic outside /repo: {msg} at {loc}"));
                }
                false
            }
        }
    };
    PHASE_DONE.with(|p| p.set(false));
    let res = panic::catch_unwind(panic::AssertUnwindSafe(|| {
        let case2 = case.clone();
        shuttle::Runner::new(ChoiceScheduler::new(), cfg.clone()).run(move || dispatch(&case2));
    }));
    add_stats(&mut total_stats);
    let mut go_on = classify(res, "workload", &mut out);
    // follow-up executions (recoveries on crash / corrupted images, ...)
    while go_on {
        let Some(fu) = FOLLOW_UPS.with(|f| f.borrow_mut().pop_front()) else { break };
        foyer_common::verif::reset();
        foyer_common::spawn::Spawner::verif_reset();
        crate::hybscn::reinstall_event_sink();
        PHASE_DONE.with(|p| p.set(false));
        // Runner::run wants Fn + Sync; the job runs exactly once (one execution per Runner)
        let job = std::sync::Mutex::new(Some(fu.job));
        let res = panic::catch_unwind(panic::AssertUnwindSafe(|| {
            shuttle::Runner::new(ChoiceScheduler::new(), cfg.clone()).run(move || {
                if let Some(j) = job.lock().unwrap().take() {
                    j()
                }
            });
        }));
        add_stats(&mut total_stats);
        go_on = classify(res, &fu.label, &mut out);
    }
    if go_on && out.harness_error.is_none() {
        // post-hoc oracles over the recorded history (outside the simulated execution)
        PHASE_DONE.with(|p| p.set(false));
        let r = panic::catch_unwind(panic::AssertUnwindSafe(|| oracle(&input.case)));
        if r.is_err() {
            let (msg, loc) = LAST_PANIC.with(|p| p.borrow_mut().take()).unwrap_or_default();
            out.harness_error = Some(format!("oracle panicked: {msg} at {loc}"));
        }
    }
    let h = hist::take();
    if std::env::var("VERIF_DUMP_TOMB").is_ok() {
        crate::simdev::DISK.with(|d| {
            let d = d.borrow();
            for w in d.writes.iter().filter(|w| w.part == 0) {
                let mut v = vec![];
                for (i, c) in w.data.chunks_exact(16).enumerate() {
                    let h = u64::from_be_bytes(c[0..8].try_into().unwrap());
                    let s = u64::from_be_bytes(c[8..16].try_into().unwrap());
                    if s != 0 || h != 0 {
                        v.push(format!("{i}:h{h}s{s}"));
                    }
                }
                eprintln!("  tomb write #{} gen{} issue@{} off{}: {:?}", w.idx, w.generation, w.issue_seq, w.offset, v);
            }
            if let Some(p0) = d.parts.first() {
                for (i, c) in p0.chunks_exact(16).enumerate().take(4096) {
                    let h = u64::from_be_bytes(c[0..8].try_into().unwrap());
                    let s = u64::from_be_bytes(c[8..16].try_into().unwrap());
                    if s != 0 || h != 0 {
                        eprintln!("  tomb slot {i}: hash {h} seq {s}");
                    }
                }
            }
        });
    }
    if std::env::var("VERIF_TRACE").is_ok() {
        for e in &h.events {
            eprintln!("  #{:<4} t{:<3} {:<14} {} {} {}", e.seq, e.task, e.kind, e.a, e.b, e.c);
        }
    }
    let streams = choice::take();
    out.violations = h.violations;
    out.events = h.events.len() as u64;
    out.order_hash = h.order_hash;
    out.nontrivial = h.nontrivial;
    out.probes = h.probes.into_iter().map(|(k, v)| (k.to_string(), v)).collect();
    out.faults = h.faults.into_iter().map(|(k, v)| (k.to_string(), v)).collect();
    out.notes = h.notes;
    out.stats = total_stats;
    if let Some(s) = streams {
        out.sched_record = s.sched.record;
        out.io_record = s.io.record;
    }
    out
}

/// Runs the case on a fresh OS thread (thread-local hasher keys, histories and task registries start from scratch, so
/// the position of a run inside a batch cannot influence it).
pub fn run_case(input: RunInput) -> RunOutput {
    let h = std::thread::Builder::new()
        .name("fsim-run".into())
        .stack_size(16 << 20)
        .spawn(move || run_on_this_thread(input))
        .expect("spawn run thread");
    match h.join() {
        Ok(o) => o,
        Err(_) => RunOutput { harness_error: Some("run thread died".into()), ..Default::default() },
    }
}
