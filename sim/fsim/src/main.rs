//! fsim — deterministic simulation of foyer with fault injection. See /verif/DESIGN.md.

mod batch;
mod c08scn;
mod choice;
mod cgen;
mod hist;
mod hybgen;
mod hyboracle;
mod hybscn;
mod parser;
mod simdev;
mod lin;
mod memgen;
mod memoracle;
mod memscn;
mod run;
mod sched;
mod types;

/// foyer's io buffers are allocated uninitialised and their padding reaches the simulated device; with a plain
/// allocator those bytes would be whatever another run (on another worker thread) freed earlier - including complete,
/// correctly checksummed entries of that other run. Zeroing every allocation makes the bytes a run writes a function
/// of that run alone.
struct ZeroingAlloc;

unsafe impl std::alloc::GlobalAlloc for ZeroingAlloc {
    unsafe fn alloc(&self, layout: std::alloc::Layout) -> *mut u8 {
        unsafe { std::alloc::System.alloc_zeroed(layout) }
    }
    unsafe fn dealloc(&self, ptr: *mut u8, layout: std::alloc::Layout) {
        unsafe { std::alloc::System.dealloc(ptr, layout) }
    }
    unsafe fn alloc_zeroed(&self, layout: std::alloc::Layout) -> *mut u8 {
        unsafe { std::alloc::System.alloc_zeroed(layout) }
    }
    unsafe fn realloc(&self, ptr: *mut u8, layout: std::alloc::Layout, new_size: usize) -> *mut u8 {
        unsafe {
            let new_layout = std::alloc::Layout::from_size_align_unchecked(new_size, layout.align());
            let new = std::alloc::System.alloc_zeroed(new_layout);
            if !new.is_null() {
                std::ptr::copy_nonoverlapping(ptr, new, layout.size().min(new_size));
                std::alloc::System.dealloc(ptr, layout);
            }
            new
        }
    }
}

#[global_allocator]
static GLOBAL: ZeroingAlloc = ZeroingAlloc;

fn usage() -> ! {
    eprintln!("usage: fsim <PROPERTY> [--tier quick|thorough] | --replay <file> [--quiet] | --selftest-determinism <PROPERTY> <n>");
    std::process::exit(2)
}

/// Re-executes fsim as a supervised child under the getrandom shim (HashMap iteration order, i.e. `RandomState`, must
/// be reproducible). The parent only supervises: a child that is killed by a signal / aborts (an allocation of an
/// absurd size requested by the code under test aborts the process, it does not unwind) is a verdict, not a crash of
/// the check: the parent finds the run that aborts, writes a replay file for it and reports the violation.
fn ensure_detrand() {
    let shim = "/verif/detrand/libdetrand.so";
    let have = std::env::var("LD_PRELOAD").map(|v| v.contains("libdetrand")).unwrap_or(false);
    if have {
        return;
    }
    if !std::path::Path::new(shim).exists() {
        eprintln!("HARNESS-ERROR: {shim} missing (run MANIFEST.setup_cmd)");
        std::process::exit(2);
    }
    let args: Vec<String> = std::env::args().skip(1).collect();
    let inflight = format!("/verif/sim/target/inflight.{}", std::process::id());
    // runs that die with a LISTED known finding are skipped and the batch is started again (at most a few times)
    let mut skip: Vec<u64> = vec![];
    for _attempt in 0..4 {
        let _ = std::fs::remove_file(&inflight);
        let status = std::process::Command::new(std::env::current_exe().unwrap())
            .args(&args)
            .env("LD_PRELOAD", shim)
            .env("FSIM_INFLIGHT", &inflight)
            .env("FSIM_SKIP", skip.iter().map(|x| x.to_string()).collect::<Vec<_>>().join(","))
            .status();
        let status = match status {
            Ok(s) => s,
            Err(e) => {
                eprintln!("HARNESS-ERROR: cannot start the simulator child: {e}");
                std::process::exit(2);
            }
        };
        let aborted = status.code().map(|c| c == 134).unwrap_or(true);
        if !aborted {
            let _ = std::fs::remove_file(&inflight);
            std::process::exit(status.code().unwrap_or(2));
        }
        // the child died: which run was it?
        match supervise_abort(&args, shim, &inflight) {
            Ok(known_idx) => skip.push(known_idx),
            Err(code) => {
                let _ = std::fs::remove_file(&inflight);
                std::process::exit(code);
            }
        }
    }
    eprintln!("HARNESS-ERROR: the simulator child kept dying");
    let _ = std::fs::remove_file(&inflight);
    std::process::exit(2);
}

/// Run indices the dead child had in flight (one 8-byte slot per worker; u64::MAX = idle).
fn inflight_runs(path: &str) -> Vec<u64> {
    let bytes = std::fs::read(path).unwrap_or_default();
    let mut v: Vec<u64> = bytes.chunks_exact(8).map(|c| u64::from_le_bytes(c.try_into().unwrap())).filter(|x| *x != u64::MAX).collect();
    v.sort();
    v.dedup();
    v
}

/// Err(exit code) when the abort is a verdict (or a harness error); Ok(run index) when the aborting run matches a listed
/// known finding (its KNOWN-FINDING line has been printed; the batch is to be repeated without that run).
fn supervise_abort(args: &[String], shim: &str, inflight: &str) -> Result<u64, i32> {
    let exe = std::env::current_exe().unwrap();
    if args.first().map(|a| a == "--replay").unwrap_or(false) {
        // replaying a recorded abort aborts again: that is the reproduction
        let path = args.get(1).cloned().unwrap_or_default();
        let prop = std::fs::read_to_string(&path).ok().and_then(|t| serde_json::from_str::<serde_json::Value>(&t).ok()).and_then(|v| v["property"].as_str().map(|s| s.to_string())).unwrap_or_default();
        println!("replay {path}: the simulated process aborted (killed by a signal / abort())");
        let shape: std::collections::BTreeMap<String, String> = std::fs::read_to_string(&path)
            .ok()
            .and_then(|t| serde_json::from_str::<batch::ReplayFile>(&t).ok())
            .map(|rf| rf.violation.shape)
            .unwrap_or_default();
        let v = hist::Violation { property: prop.clone(), rule: "process-abort".into(), detail: String::new(), shape };
        if let Some(k) = batch::load_known().matches(&v) {
            println!("KNOWN-FINDING: property={prop} {} ({})", k.what, k.id);
            return Err(0);
        }
        println!("VIOLATION property={prop} replay={path}");
        return Err(1);
    }
    let prop = match args.first() {
        Some(p) if !p.starts_with("--") => p.clone(),
        _ => {
            eprintln!("HARNESS-ERROR: the simulator child aborted");
            return Err(2);
        }
    };
    let thorough = args.windows(2).any(|w| w[0] == "--tier" && w[1] == "thorough") || std::env::var("VERIF_TIER").map(|t| t == "thorough").unwrap_or(false);
    let seed: u64 = std::env::var("VERIF_SEED").ok().and_then(|s| s.parse().ok()).unwrap_or(20260923);
    let cands = inflight_runs(inflight);
    eprintln!("the simulator process aborted with runs {cands:?} in flight; re-running each of them in a process of its own");
    for idx in cands {
        let out = std::process::Command::new(&exe)
            .args([prop.as_str(), "--tier", if thorough { "thorough" } else { "quick" }, "--run", &idx.to_string()])
            .env("LD_PRELOAD", shim)
            .env("VERIF_NOSHRINK", "1")
            .env_remove("FSIM_INFLIGHT")
            .output();
        let Ok(out) = out else { continue };
        if out.status.code().map(|c| c == 134).unwrap_or(true) {
            use std::os::unix::process::ExitStatusExt;
            let stderr = String::from_utf8_lossy(&out.stderr);
            let first = stderr.lines().find(|l| !l.trim().is_empty()).unwrap_or("").chars().take(300).collect::<String>();
            let signal = match out.status.signal() {
                Some(11) => "SIGSEGV".to_string(),
                Some(6) | None => "SIGABRT".to_string(),
                Some(n) => format!("signal {n}"),
            };
            let mut shape = std::collections::BTreeMap::new();
            shape.insert("signal".to_string(), signal.clone());
            let input = batch::input_for(&prop, thorough, seed, idx);
            let rf = batch::ReplayFile {
                property: prop.clone(),
                seed,
                run_index: idx,
                case: input.case,
                sched: vec![],
                io: vec![],
                violation: hist::Violation { property: prop.clone(), rule: "process-abort".into(), detail: format!("run {idx} makes the process die ({signal}): {first}"), shape: shape.clone() },
                minimised: false,
                note: "the run aborts the process, so its streams could not be recorded: replayed from (seed, run index, tier)".into(),
                build_variant: batch::build_variant().to_string(),
                from_seed: true,
                thorough,
            };
            let _ = std::fs::create_dir_all("/verif/replays");
            let path = format!("/verif/replays/{prop}-{seed}-{idx}-abort.json");
            std::fs::write(&path, serde_json::to_string_pretty(&rf).unwrap()).unwrap();
            if let Some(k) = batch::load_known().matches(&rf.violation) {
                println!("KNOWN-FINDING: property={prop} {} [{}; run {idx} ({signal}), replay {path}]", k.what, k.id);
                return Ok(idx);
            }
            println!("  [{prop}] process-abort: run {idx} makes the process die ({signal}): {first}");
            println!("VIOLATION property={prop} replay={path}");
            return Err(1);
        }
    }
    eprintln!("HARNESS-ERROR: the simulator child aborted but none of the runs in flight aborts on its own");
    Err(2)
}

fn main() {
    ensure_detrand();
    let args: Vec<String> = std::env::args().skip(1).collect();
    if args.is_empty() {
        usage();
    }
    run::install_panic_hook();
    let seed: u64 = std::env::var("VERIF_SEED").ok().and_then(|s| s.parse().ok()).unwrap_or(20260923);
    if args[0] == "--replay" {
        let path = args.get(1).cloned().unwrap_or_else(|| usage());
        let quiet = args.iter().any(|a| a == "--quiet");
        std::process::exit(batch::replay_file(&path, quiet));
    }
    if args[0] == "--selftest-determinism" {
        let prop = args.get(1).cloned().unwrap_or_else(|| usage());
        let n: u64 = args.get(2).and_then(|s| s.parse().ok()).unwrap_or(200);
        // prints one line per run: hashes of everything observable; two invocations must print identical output
        for idx in 0..n {
            let input = batch::input_for(&prop, false, seed, idx);
            let out = run::run_case(input);
            println!(
                "{idx} order={:016x} sched={:016x} steps={} events={} schedlen={} iolen={} viol={} err={:?}",
                out.order_hash,
                out.stats.sched_hash,
                out.stats.steps,
                out.events,
                out.sched_record.len(),
                out.io_record.len(),
                out.violations.len(),
                out.harness_error
            );
        }
        return;
    }
    let prop = args[0].clone();
    let mut thorough = std::env::var("VERIF_TIER").map(|t| t == "thorough").unwrap_or(false);
    let mut i = 1;
    while i < args.len() {
        match args[i].as_str() {
            "--tier" => {
                thorough = args.get(i + 1).map(|s| s == "thorough").unwrap_or(false);
                i += 1;
            }
            "--run" => {
                i += 1;
            }
            _ => usage(),
        }
        i += 1;
    }
    if let Some(pos) = std::env::args().position(|a| a == "--run") {
        // debugging aid: run exactly one index of the batch, minimise and print
        let idx: u64 = std::env::args().nth(pos + 1).and_then(|s| s.parse().ok()).unwrap_or(0);
        let input = batch::input_for(&prop, thorough, seed, idx);
        let out = run::run_case(input.clone());
        println!("run {idx}: cfg {:?}", input.case.cfg);
        for v in &out.violations {
            println!("  [{}] {} {:?}: {}", v.property, v.rule, v.shape, v.detail);
        }
        if let Some(v) = out.violations.first() {
            let budget = if std::env::var("VERIF_NOSHRINK").is_ok() { 0 } else { 400 };
            let (c, s, i, mv, execs) = batch::shrink(&input.case, &out.sched_record, &out.io_record, v, budget);
            println!("minimised ({execs} execs): cfg {:?}", c.cfg);
            for cl in &c.clients {
                println!("  client: {cl:?}");
            }
            println!("  sched {s:?} io-len {} -> [{}] {}: {}", i.len(), mv.property, mv.rule, mv.detail);
            let rf = batch::ReplayFile {
                property: prop.clone(),
                seed,
                run_index: idx,
                case: c,
                sched: s,
                io: i,
                violation: mv,
                minimised: true,
                note: "written by --run".into(),
                build_variant: batch::build_variant().to_string(),
                from_seed: false,
                thorough: false,
            };
            let _ = std::fs::create_dir_all("/verif/replays/tmp");
            let p = format!("/verif/replays/tmp/{prop}-{idx}.json");
            std::fs::write(&p, serde_json::to_string_pretty(&rf).unwrap()).unwrap();
            println!("  replay written to {p}");
        }
        return;
    }
    let plan = batch::plan_for(&prop, thorough, seed);
    std::process::exit(batch::check_property(&plan));
}
