//! C08: every storable key/value round-trips through the disk format bit-exactly. Typed scenario: one key/value type
//! pair per run, entries pushed through the real store (serializer, compression, flush buffer, splitter, device),
//! read back from the write queue, from disk, and after recovery. Where an entry lands in the flush buffer and what
//! shares its batch are schedule outcomes; entries that do not fit must be rejected as a whole.

use std::{fmt::Debug, sync::Arc};

use foyer::{
    BlockEngineConfig, Compression, HybridCache, HybridCacheBuilder, HybridCachePolicy, IoEngineConfig, Load, RecoverMode,
    StorageKey, StorageValue,
};

use crate::{
    choice::{Rng, mix2},
    hist,
    hybscn::{Geo, geo},
    memscn::runtime_shutdown,
    parser,
    simdev::{self, PAGE, SimDevice, SimIoEngineConfig},
    types::Case,
};

async fn open_typed<K: StorageKey + Clone, V: StorageValue>(case: &Case, g: &Geo) -> Result<HybridCache<K, V>, String> {
    let dev = SimDevice::new(g.capacity);
    let engine = BlockEngineConfig::new(dev)
        .with_block_size(g.block_size)
        .with_blob_index_size(g.blob_index_size)
        .with_flushers(g.flushers)
        .with_reclaimers(case.get("reclaimers").max(1) as usize)
        .with_clean_block_threshold(case.get("clean_thr").max(1) as usize)
        .with_buffer_pool_size(g.buf_per_flusher * g.flushers)
        .with_indexer_shards(case.get("idx_shards").max(1) as usize)
        .with_recover_concurrency(case.get("rec_conc").max(1) as usize)
        .with_tombstone_log(g.tomb);
    let compression = match case.get("comp") {
        1 => Compression::Zstd,
        2 => Compression::Lz4,
        _ => Compression::None,
    };
    let engine = if case.get("comp_real") != 0 { engine.verif_with_compression(compression) } else { engine };
    HybridCacheBuilder::new()
        .with_policy(HybridCachePolicy::WriteOnEviction)
        .memory(case.get("mem_cap").max(1) as usize)
        .with_shards(1)
        .with_weighter(|_, _| 1)
        .storage()
        .with_io_engine_config(Box::new(SimIoEngineConfig) as Box<dyn IoEngineConfig>)
        .with_engine_config(engine)
        .with_compression(compression)
        .with_recover_mode(RecoverMode::Quiet)
        .build()
        .await
        .map_err(|e| format!("{e}"))
}

fn on_event(kind: &'static str, a: u64, b: u64) {
    match kind {
        "shed" => {
            let (b, seq1) = (b & 0xff, b >> 8);
            hist::ev("shed", a, b, seq1);
            hist::probe(match b {
                1 => "shed_no_header_space",
                2 => "shed_buffer_size_limit",
                3 => "shed_larger_than_max_entry",
                4 => "shed_serializer_other_error",
                _ => "shed_other",
            });
            if b == 4 {
                hist::violation(
                    "C08",
                    "serializer-error-not-size-limit",
                    format!("serializing an entry (hash {a}) into the flush buffer failed with an error that is not the size-limit error"),
                    &[],
                );
            }
        }
        "enqueue" => {
            hist::ev("enqueue", a, b, 0);
        }
        _ => {}
    }
}

/// (encoded key length, encoded value length) as the format documents them, for the uncompressed case.
pub trait Sized2 {
    fn enc_len(&self) -> usize;
}
macro_rules! fixed {
    ($($t:ty),*) => { $(impl Sized2 for $t { fn enc_len(&self) -> usize { std::mem::size_of::<$t>() } })* };
}
fixed!(u8, u16, u32, u64, u128, usize, i8, i16, i32, i64, i128, isize, f32, f64);
impl Sized2 for bool {
    fn enc_len(&self) -> usize {
        1
    }
}
impl Sized2 for String {
    fn enc_len(&self) -> usize {
        8 + self.len()
    }
}
impl Sized2 for Vec<u8> {
    fn enc_len(&self) -> usize {
        8 + self.len()
    }
}
impl Sized2 for bytes::Bytes {
    fn enc_len(&self) -> usize {
        8 + self.len()
    }
}

async fn roundtrip<K, V>(case: &Case, items: Vec<(K, V)>, same: fn(&V, &V) -> bool)
where
    K: StorageKey + Clone + Debug + Eq + Sized2,
    V: StorageValue + Clone + Debug + Sized2,
{
    let g = geo(case);
    let cache: HybridCache<K, V> = match open_typed(case, &g).await {
        Ok(c) => c,
        Err(e) => {
            hist::violation("C08", "open-failed", e, &[]);
            return;
        }
    };
    let mut rng = Rng::new(mix2(case.get("keys") as u64, items.len() as u64));
    // push everything to the disk tier (forced storage-writer inserts), with waits at random points
    let mut written: Vec<(K, V, u64)> = vec![];
    for (k, v) in items.iter() {
        let hash = cache.memory().hash(k);
        let before = hist::now();
        if let Some(e) = cache.storage_writer(k.clone()).force().insert(v.clone()) {
            drop(e);
        }
        written.push((k.clone(), v.clone(), hash));
        let _ = before;
        if rng.chance(1, 4) {
            cache.storage().wait().await;
        }
        if rng.chance(1, 3) {
            let older: Vec<V> = written.iter().filter(|(wk, _, _)| wk == k).map(|(_, wv, _)| wv.clone()).collect();
            check_one(case, &cache, k, v, hash, same, "write-queue-or-disk", &older).await;
        }
    }
    cache.storage().wait().await;
    // the latest write of a key wins: judge each key against its newest value
    let mut latest: Vec<(K, V, u64)> = vec![];
    for (k, v, h) in written.iter().rev() {
        if !latest.iter().any(|(lk, _, _)| lk == k) {
            latest.push((k.clone(), v.clone(), *h));
        }
    }
    for (k, v, hash) in latest.iter() {
        let older: Vec<V> = written.iter().filter(|(wk, _, _)| wk == k).map(|(_, wv, _)| wv.clone()).collect();
        check_one(case, &cache, k, v, *hash, same, "after-wait", &older).await;
    }
    // header lengths equal the bytes actually written (uncompressed entries only: the format length is then known)
    if case.get("comp") == 0 {
        simdev::DISK.with(|d| {
            let d = d.borrow();
            for w in d.writes.iter() {
                for e in parser::parse_entries(&w.data) {
                    if !e.checksum_ok {
                        continue;
                    }
                    let cands: Vec<&(K, V, u64)> = written.iter().filter(|(_, _, h)| *h == e.header.hash).collect();
                    if let Some((k, v, _)) = cands.last() {
                        hist::probe("c08_header_checked");
                        // the entry on disk is one of the writes of that key: its recorded lengths must be those of one of them
                        if !cands.iter().any(|(ck, cv, _)| e.header.key_len == ck.enc_len() && e.header.value_len == cv.enc_len()) {
                            hist::violation(
                                "C08",
                                "recorded-length-mismatch",
                                format!(
                                    "entry header records key_len {} value_len {} but the encoded key/value are {} / {} bytes",
                                    e.header.key_len,
                                    e.header.value_len,
                                    k.enc_len(),
                                    v.enc_len()
                                ),
                                &[],
                            );
                        }
                    }
                }
            }
        });
    }
    // compressed entries: the recorded key length is the encoded key's, and the first `value_len` bytes of the body are
    // a complete compressed stream of exactly the encoded value of one of the writes of that key
    if case.get("comp") != 0 && case.get("comp_real") != 0 {
        simdev::DISK.with(|d| {
            let d = d.borrow();
            for w in d.writes.iter() {
                for e in parser::parse_entries(&w.data) {
                    if !e.checksum_ok {
                        continue;
                    }
                    let cands: Vec<&(K, V, u64)> = written.iter().filter(|(_, _, h)| *h == e.header.hash).collect();
                    if cands.is_empty() {
                        continue;
                    }
                    hist::probe("c08_compressed_header_checked");
                    if e.header.compression as i64 != case.get("comp") {
                        hist::violation("C08", "recorded-compression-mismatch", format!("entry header records compression {} but the engine was configured with {}", e.header.compression, case.get("comp")), &[]);
                        continue;
                    }
                    let body = &w.data[e.at + parser::ENTRY_HEADER..e.at + parser::ENTRY_HEADER + e.header.value_len];
                    let ok = cands.iter().any(|(ck, cv, _)| e.header.key_len == ck.enc_len() && parser::decompress_exact(body, e.header.compression, cv.enc_len()).is_some());
                    if !ok {
                        hist::violation(
                            "C08",
                            "recorded-length-mismatch",
                            format!(
                                "compressed entry header records key_len {} value_len {}: the first value_len bytes of the body do not decompress to exactly the encoded value ({} bytes) of a write of that key",
                                e.header.key_len,
                                e.header.value_len,
                                cands.last().map(|c| c.1.enc_len()).unwrap_or(0)
                            ),
                            &[("comp", case.get("comp").to_string())],
                        );
                    }
                }
            }
        });
    }
    // and after recovery
    if case.get("reopen") != 0 {
        let _ = cache.close().await;
        drop(cache);
        simdev::quiesce().await;
        runtime_shutdown().await;
        foyer_common::spawn::Spawner::verif_reset();
        let cache: HybridCache<K, V> = match open_typed(case, &g).await {
            Ok(c) => c,
            Err(e) => {
                hist::violation("C08", "reopen-failed", e, &[]);
                return;
            }
        };
        for (k, v, hash) in latest.iter() {
            let older: Vec<V> = written.iter().filter(|(wk, _, _)| wk == k).map(|(_, wv, _)| wv.clone()).collect();
            check_one(case, &cache, k, v, *hash, same, "after-reopen", &older).await;
        }
        crate::run::phase_done();
        drop(cache);
        runtime_shutdown().await;
    } else {
        crate::run::phase_done();
        drop(cache);
        runtime_shutdown().await;
    }
}

async fn check_one<K, V>(case: &Case, cache: &HybridCache<K, V>, k: &K, v: &V, hash: u64, same: fn(&V, &V) -> bool, at: &str, older: &[V])
where
    K: StorageKey + Clone + Debug + Eq,
    V: StorageValue + Clone + Debug,
{
    // the latest write of a key wins: only judge keys whose newest value is `v`
    hist::probe("c08_lookup");
    let shed = hist::with_events(|evs| evs.iter().rev().find(|e| (e.kind == "shed" || e.kind == "enqueue") && e.a == hash).map(|e| e.kind == "shed")).unwrap_or(false);
    match cache.storage().load(k).await {
        Ok(Load::Entry { key, value, .. }) => {
            hist::probe("c08_loaded_from_disk");
            hist::set_nontrivial();
            // freshness is C01's subject: an exact copy of an older write of the same key is still a faithful round trip
            if &key == k && !same(&value, v) && older.iter().any(|o| same(&value, o)) {
                hist::probe("c08_older_write_returned_exactly");
            } else if &key != k || !same(&value, v) {
                hist::violation(
                    "C08",
                    "roundtrip-mismatch",
                    format!("{at}: stored ({k:?}, {} bytes) but the disk tier returned ({key:?}, {} bytes){}", dbg_len(v), dbg_len(&value), if &key != k { " [key differs]" } else { "" }),
                    &[("comp", case.get("comp").to_string()), ("tp", case.get("tp").to_string())],
                );
            }
        }
        Ok(Load::Piece { piece, .. }) => {
            hist::probe("c08_loaded_from_write_queue");
            if piece.key() != k || !same(piece.value(), v) {
                hist::violation("C08", "roundtrip-mismatch", format!("{at}: write queue returned a different entry for {k:?}"), &[]);
            }
        }
        Ok(Load::Miss) | Ok(Load::Throttled) => {
            if shed {
                hist::probe("c08_rejected_as_a_whole");
                if cache.storage().may_contains(k) {
                    hist::violation("C08", "rejected-entry-indexed", format!("{at}: the entry for {k:?} was rejected by the flusher yet the disk index still claims the key"), &[]);
                }
            } else if at == "after-wait" {
                // accepted (not shed), flushed, device large enough: it must be there
                if case.get("ample") != 0 {
                    hist::violation("C08", "accepted-entry-lost", format!("{at}: the entry for {k:?} was accepted by the disk tier but cannot be loaded"), &[]);
                }
            }
        }
        Err(e) => {
            hist::violation("C08", "load-error", format!("{at}: load of {k:?} failed: {e}"), &[]);
        }
    }
}

fn dbg_len<V: Debug>(v: &V) -> usize {
    format!("{v:?}").len()
}

fn bytes_of(rng: &mut Rng, len: usize, compressible: bool) -> Vec<u8> {
    let mut v = Vec::with_capacity(len);
    let mut x = rng.next();
    for i in 0..len {
        if compressible {
            v.push(b'a' + ((x >> (i % 3)) & 3) as u8);
            if i % 97 == 96 {
                x = rng.next();
            }
        } else {
            x = crate::choice::splitmix(x);
            v.push(x as u8);
        }
    }
    v
}

fn lens(g: &Geo, rng: &mut Rng, n: usize) -> Vec<usize> {
    let max = g.max_entry;
    let mut out = vec![];
    for _ in 0..n {
        out.push(match rng.below(8) {
            0 => 0,
            1 => 1 + rng.below(64),
            2 => PAGE - 60 + rng.below(20),
            3 => PAGE + rng.below(PAGE),
            4 => max - 60 - rng.below(8),
            // big blocks: values between the decoders' buffer sizes and the maximum
            5 if max > 40 * PAGE && rng.chance(2, 3) => 33 * PAGE + rng.below(max - 34 * PAGE),
            5 => max + rng.below(PAGE),
            _ => rng.below(max.min(3 * PAGE)),
        });
    }
    out
}

pub fn exec(case: &Case) {
    simdev::reset_disk(case.get("max_delay").max(0) as usize);
    foyer_common::verif::set_event_sink(on_event);
    let case = case.clone();
    let g = geo(&case);
    let mut rng = Rng::new(mix2(0xC08, case.get("gen_seed") as u64));
    let n = case.get("items").max(1) as usize;
    shuttle::future::block_on(async move {
        let ls = lens(&g, &mut rng, n);
        let comp = |rng: &mut Rng| rng.chance(1, 2);
        macro_rules! numeric {
            ($t:ty, $mk:expr) => {{
                let mut items: Vec<(u64, $t)> = vec![];
                let specials: Vec<$t> = $mk;
                for (i, s) in specials.into_iter().enumerate() {
                    items.push((i as u64 % 6, s));
                }
                roundtrip::<u64, $t>(&case, items, |a, b| a.to_ne_bytes() == b.to_ne_bytes()).await
            }};
        }
        match case.get("tp") {
            0 => {
                let items: Vec<(u64, Vec<u8>)> = ls.iter().enumerate().map(|(i, l)| { let c = comp(&mut rng); (i as u64 % 7, bytes_of(&mut rng, *l, c)) }).collect();
                roundtrip(&case, items, |a, b| a == b).await
            }
            1 => {
                let items: Vec<(String, String)> = ls
                    .iter()
                    .enumerate()
                    .map(|(i, l)| {
                        let key = match i % 4 {
                            0 => String::new(),
                            1 => "k\u{00e9}\u{4e16}\u{1F600}".repeat(1 + i % 3),
                            _ => format!("key-{i}"),
                        };
                        let val: String = if i % 3 == 0 { "\u{4e16}\u{754c}\u{1F600}x".repeat(l / 11) } else { "a".repeat(*l) };
                        (key, val)
                    })
                    .collect();
                roundtrip(&case, items, |a, b| a == b).await
            }
            2 => {
                let items: Vec<(u64, bytes::Bytes)> = ls.iter().enumerate().map(|(i, l)| { let c = comp(&mut rng); (i as u64 % 7, bytes::Bytes::from(bytes_of(&mut rng, *l, c))) }).collect();
                roundtrip(&case, items, |a, b| a == b).await
            }
            3 => {
                let items: Vec<(String, Vec<u8>)> = ls.iter().enumerate().map(|(i, l)| { let c = comp(&mut rng); (format!("s{}", i % 5), bytes_of(&mut rng, *l, c)) }).collect();
                roundtrip(&case, items, |a, b| a == b).await
            }
            4 => {
                let items: Vec<(i64, bool)> = vec![(i64::MIN, true), (i64::MAX, false), (0, true), (-1, false), (1, true)];
                roundtrip(&case, items, |a, b| a == b).await
            }
            5 => numeric!(u8, vec![0, 1, u8::MAX, rng.next() as u8]),
            6 => numeric!(u16, vec![0, 1, u16::MAX, rng.next() as u16]),
            7 => numeric!(u32, vec![0, 1, u32::MAX, rng.next() as u32]),
            8 => numeric!(u64, vec![0, 1, u64::MAX, rng.next()]),
            9 => numeric!(u128, vec![0, 1, u128::MAX, (rng.next() as u128) << 64 | rng.next() as u128]),
            10 => numeric!(usize, vec![0, 1, usize::MAX, rng.next() as usize]),
            11 => numeric!(i8, vec![0, -1, i8::MIN, i8::MAX]),
            12 => numeric!(i16, vec![0, -1, i16::MIN, i16::MAX]),
            13 => numeric!(i32, vec![0, -1, i32::MIN, i32::MAX]),
            14 => numeric!(i64, vec![0, -1, i64::MIN, i64::MAX]),
            15 => numeric!(i128, vec![0, -1, i128::MIN, i128::MAX]),
            16 => numeric!(isize, vec![0, -1, isize::MIN, isize::MAX]),
            17 => numeric!(f32, vec![0.0, -0.0, f32::MIN, f32::MAX, f32::NAN, f32::INFINITY, f32::MIN_POSITIVE]),
            _ => numeric!(f64, vec![0.0, -0.0, f64::MIN, f64::MAX, f64::NAN, f64::NEG_INFINITY, f64::MIN_POSITIVE]),
        }
        hist::ev("end", 0, 0, 0);
    });
    let _ = Arc::new(0);
}
