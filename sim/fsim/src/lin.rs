//! Wing–Gong style linearizability search for ONE key against "atomic register whose reads may miss".
//!
//! State: None or Some(version). Missing reads are not part of the history (a miss is always allowed: capacity
//! eviction may remove an entry at any instant, and it never makes a hit legal that was not legal without it).

use std::collections::HashSet;

#[derive(Clone, Debug, PartialEq)]
pub enum LinKind {
    /// insert(v): state := v
    Write(u32),
    /// a write that may or may not take effect (the insert a late fetch performs)
    OptionalWrite(u32),
    /// remove that found nothing / clear: state := None
    Unset,
    /// remove that returned v: requires state == v, then state := None
    RemoveSome(u32),
    /// lookup that returned v: requires state == v
    ReadHit(u32),
    /// contains/touch returned true: requires state != None
    ReadAny,
}

#[derive(Clone, Debug)]
pub struct LinOp {
    pub inv: u64,
    pub ret: u64,
    pub kind: LinKind,
    pub label: String,
}

/// Returns Ok(()) if a linearization exists, Err(description) otherwise.
pub fn check(ops: &[LinOp]) -> Result<(), String> {
    let n = ops.len();
    if n == 0 {
        return Ok(());
    }
    if n > 24 {
        // bounded by construction in the generators; treat as "not checked" rather than guessing
        return Ok(());
    }
    let mut seen: HashSet<(u32, Option<u32>)> = HashSet::new();
    if dfs(ops, 0, None, &mut seen) {
        Ok(())
    } else {
        let mut s = String::new();
        let mut sorted: Vec<&LinOp> = ops.iter().collect();
        sorted.sort_by_key(|o| o.inv);
        for o in sorted {
            s.push_str(&format!("[{}..{}] {} ; ", o.inv, o.ret, o.label));
        }
        Err(s)
    }
}

fn dfs(ops: &[LinOp], done: u32, state: Option<u32>, seen: &mut HashSet<(u32, Option<u32>)>) -> bool {
    let n = ops.len();
    if done == (1u32 << n) - 1 {
        return true;
    }
    if !seen.insert((done, state)) {
        return false;
    }
    // minimal return among pending ops: an op can be linearized next only if it was invoked before every pending
    // op's return (otherwise that other op must come first)
    let mut min_ret = u64::MAX;
    for (i, o) in ops.iter().enumerate() {
        if done & (1 << i) == 0 {
            min_ret = min_ret.min(o.ret);
        }
    }
    for (i, o) in ops.iter().enumerate() {
        if done & (1 << i) != 0 || o.inv > min_ret {
            continue;
        }
        let nd = done | (1 << i);
        match &o.kind {
            LinKind::Write(v) => {
                if dfs(ops, nd, Some(*v), seen) {
                    return true;
                }
            }
            LinKind::OptionalWrite(v) => {
                if dfs(ops, nd, Some(*v), seen) || dfs(ops, nd, state, seen) {
                    return true;
                }
            }
            LinKind::Unset => {
                if dfs(ops, nd, None, seen) {
                    return true;
                }
            }
            LinKind::RemoveSome(v) => {
                if state == Some(*v) && dfs(ops, nd, None, seen) {
                    return true;
                }
            }
            LinKind::ReadHit(v) => {
                if state == Some(*v) && dfs(ops, nd, state, seen) {
                    return true;
                }
            }
            LinKind::ReadAny => {
                if state.is_some() && dfs(ops, nd, state, seen) {
                    return true;
                }
            }
        }
    }
    false
}

#[cfg(test)]
mod tests {
    use super::*;
    fn op(inv: u64, ret: u64, kind: LinKind) -> LinOp {
        LinOp { inv, ret, kind, label: String::new() }
    }
    #[test]
    fn stale_read_rejected() {
        // W1 [1,2] W2 [3,4] R(1) [5,6]
        let ops = vec![op(1, 2, LinKind::Write(1)), op(3, 4, LinKind::Write(2)), op(5, 6, LinKind::ReadHit(1))];
        assert!(check(&ops).is_err());
    }
    #[test]
    fn concurrent_ok() {
        let ops = vec![op(1, 10, LinKind::Write(1)), op(2, 9, LinKind::Write(2)), op(11, 12, LinKind::ReadHit(1))];
        assert!(check(&ops).is_ok());
    }
}
