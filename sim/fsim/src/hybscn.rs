//! Hybrid scenario: the real `HybridCache` (memory cache -> store -> keeper -> block engine with flushers, reclaimers,
//! recovery, tombstone log) over the simulated device, driven by one foreground client plus foyer's own background
//! tasks. The oracle for value correctness (C01 and friends) runs inline: the client is sequential, so the reference
//! model is a map from key to its current version.

use std::{
    cell::RefCell,
    collections::{BTreeMap, BTreeSet},
    sync::{
        Arc,
        atomic::{AtomicU32, Ordering},
    },
};

use foyer::{
    BlockEngineConfig, Compression, EvictionPicker, FifoPicker, HybridCache, HybridCacheBuilder, HybridCacheEntry,
    HybridCachePolicy, HybridCacheProperties, InvalidRatioPicker, IoEngineConfig, Location, RecoverMode, Source,
    Statistics, StorageFilter, StorageFilterCondition, StorageFilterResult,
};
use foyer_common::spawn::Spawner;
use foyer_storage::test_utils::{Holder, Switch};

use crate::{
    hist,
    memscn::{eviction_config, runtime_shutdown},
    parser,
    simdev::{self, PAGE, SimDevice, SimIoEngineConfig},
    types::{Case, Op, OpRec, Res, SimHasher, Tagged, check_value, make_value},
};

pub type HCache = HybridCache<u64, Vec<u8>, SimHasher>;
pub type HEntry = HybridCacheEntry<u64, Vec<u8>, SimHasher>;

// ---------------------------------------------------------------------------------------------------------------
// Geometry and value sizes

#[derive(Clone, Debug)]
pub struct Geo {
    pub block_size: usize,
    pub blocks: usize,
    pub blob_index_size: usize,
    pub tomb: bool,
    pub tomb_pages: usize,
    pub capacity: usize,
    pub max_entry: usize,
    pub flushers: usize,
    pub buf_per_flusher: usize,
}

pub fn geo(case: &Case) -> Geo {
    let block_size = case.get("block_pages").max(2) as usize * PAGE;
    let blocks = case.get("blocks").max(2) as usize;
    let blob_index_size = case.get("blob_pages").max(1) as usize * PAGE;
    let tomb = case.get("tomb") != 0;
    let mut tomb_pages = 0usize;
    if tomb {
        // the engine sizes the log from the device capacity: one slot per device page, 256 slots per log page
        tomb_pages = 1;
        loop {
            let cap = blocks * block_size + tomb_pages * PAGE;
            let need = (cap / PAGE).div_ceil(256);
            if need <= tomb_pages {
                break;
            }
            tomb_pages = need;
        }
    }
    let flushers = case.get("flushers").max(1) as usize;
    let buf_pages = case.get("buf_pages").max(flushers as i64) as usize;
    Geo {
        block_size,
        blocks,
        blob_index_size,
        tomb,
        tomb_pages,
        capacity: blocks * block_size + tomb_pages * PAGE,
        max_entry: block_size - blob_index_size,
        flushers,
        buf_per_flusher: (buf_pages * PAGE / flushers) / PAGE * PAGE,
    }
}

/// Serialized entry = 36 header + (8 length prefix + value bytes) + 8 key bytes.
pub const ENTRY_OVERHEAD: usize = 36 + 8 + 8;

/// Value length for a size class. 0 tiny, 1 sub-page, 2 one page exactly (aligned), 3 one page + 1 byte,
/// 4 multi-page, 5 exactly the per-entry maximum, 6 one byte beyond the maximum.
pub fn value_len(g: &Geo, class: u32, ver: u32) -> usize {
    let max_len = g.max_entry - ENTRY_OVERHEAD;
    if class >= 100 {
        // exact page counts (C07): an entry of `class - 100` pages, sometimes with slack inside its last page
        let pages = (class - 100).max(1) as usize;
        let slack = if ver % 3 == 0 { 0 } else { (ver as usize * 37) % 900 };
        return (pages * PAGE - ENTRY_OVERHEAD - slack).min(max_len);
    }
    let l = match class {
        0 => 20,
        1 => 100 + (ver as usize * 37) % 2000,
        2 => PAGE - ENTRY_OVERHEAD,
        3 => PAGE - ENTRY_OVERHEAD + 1,
        4 => PAGE + 100 + (ver as usize * 911) % (2 * PAGE),
        5 => max_len,
        _ => max_len + 1,
    };
    if class <= 4 { l.min(max_len) } else { l }
}

// ---------------------------------------------------------------------------------------------------------------
// Filters controlled by the scenario

#[derive(Debug, Default)]
pub struct FilterCtl {
    /// 0 admit, 1 reject, 2 throttled
    pub admission_mode: AtomicU32,
    /// keys (hashes) with hash % m == m-1 are rejected by the admission filter (0: none)
    pub reject_mod: AtomicU32,
    /// hashes with hash % m == 0 are reinserted on reclaim (0: none)
    pub reinsert_mod: AtomicU32,
}

#[derive(Debug)]
struct Admission(Arc<FilterCtl>);
impl StorageFilterCondition for Admission {
    fn filter(&self, _: &Arc<Statistics>, hash: u64, _: usize) -> StorageFilterResult {
        hist::ev("admission_filter", hash, 0, 0);
        crate::hybscn::callback_check("admission_filter");
        let m = self.0.reject_mod.load(Ordering::Relaxed) as u64;
        if m > 0 && hash % m == m - 1 {
            return StorageFilterResult::Reject;
        }
        match self.0.admission_mode.load(Ordering::Relaxed) {
            0 => StorageFilterResult::Admit,
            1 => StorageFilterResult::Reject,
            _ => StorageFilterResult::Throttled(std::time::Duration::from_millis(1)),
        }
    }
}

#[derive(Debug)]
struct Reinsertion(Arc<FilterCtl>);
impl StorageFilterCondition for Reinsertion {
    fn filter(&self, _: &Arc<Statistics>, hash: u64, _: usize) -> StorageFilterResult {
        crate::hybscn::callback_check("reinsertion_filter");
        let m = self.0.reinsert_mod.load(Ordering::Relaxed) as u64;
        if m > 0 && hash % m == 0 { StorageFilterResult::Admit } else { StorageFilterResult::Reject }
    }
}

pub fn callback_check(site: &'static str) {
    let on = ST.with(|s| s.borrow().check_locks);
    if on {
        let held = foyer_common::verif::locks_held();
        hist::probe("callback_checked");
        if held > 0 {
            hist::violation(
                "C16",
                "callback-under-lock",
                format!("{site} invoked while the calling task holds {held} foyer lock(s)"),
                &[("site", site.to_string())],
            );
        }
    }
}

// ---------------------------------------------------------------------------------------------------------------
// Reference model (sequential client)

#[derive(Clone, Debug, Default)]
pub struct KeyModel {
    /// current version (latest completed insert not followed by a completed remove / clear)
    pub cur: Option<u32>,
    /// every version ever written for the key -> (length, location class, handed to the disk tier at seq)
    pub versions: BTreeMap<u32, VerInfo>,
    /// versions below this were removed / cleared (or superseded before such an operation)
    pub floor: u32,
    /// an overload shed happened for this key's hash since its last successful hand-over / delete
    pub shed: bool,
    /// oversize shed (strict; only recorded for diagnostics)
    pub oversize_shed: bool,
    /// the last removal of the key was a clear() (diagnostics / finding classification)
    pub floor_by_clear: bool,
    /// event sequence number of the last remove / clear of the key
    pub removed_at: u64,
    /// a wrong version of this key has already been reported; the same wrong version coming back again (it is now
    /// cached in memory) is a consequence, not a new violation. Reset by the next write / removal of the key.
    pub reported_wrong: Option<u32>,
}

#[derive(Clone, Debug, Default)]
pub struct VerInfo {
    pub len: usize,
    pub loc: u8,
    pub class: u32,
    /// invoke sequence number of the client operation that wrote this version
    pub written_inv: u64,
}

#[derive(Default)]
pub struct HybState {
    pub model: BTreeMap<u64, KeyModel>,
    pub next_ver: u32,
    pub check_locks: bool,
    pub restarts: u32,
    pub prop: String,
    pub oplog: Vec<OpRec>,
    pub hmode: u8,
    pub keys: u64,
    pub closed: bool,
    /// sequence numbers assigned by the engine: sequence -> (hash) in submission order
    pub enqueued: Vec<(u64, u64, u64)>,
    /// (task, key) -> version of the last memory eviction notification seen by that task
    pub last_leave: BTreeMap<(usize, u64), (u32, u64)>,
    /// hand-offs to the disk tier attributed to versions: (key, version, engine sequence, task)
    pub handoffs: Vec<(u64, u32, u64, u64)>,
    /// event time of each hand-off (parallel to `handoffs`)
    pub handoff_at: Vec<u64>,
    /// (key, version) the client is currently writing (attribution of write-on-insertion hand-offs)
    pub cur_write: Option<(u64, u32)>,
    /// the same for the second foreground client (its keys are disjoint from the first client's)
    pub cur_write_b: Option<(u64, u32)>,
    /// write-on-insertion policy (capacity evictions hand nothing over then, except disk-only entries)
    pub woi: bool,
    /// per-entry maximum of the disk tier (aligned bytes)
    pub max_entry: usize,
    /// version counter value at the first explicit close() since the last (re)open
    pub close_ver: Option<u32>,
    /// number of device writes issued by the workload proper (C04 / C03: later writes belong to recoveries)
    pub crash_writes: usize,
    /// number of hand-offs attributed by the workload proper (later ones belong to recoveries / second lives)
    pub crash_handoffs: usize,
    /// lookups the caller abandoned while they were still pending (key, invoke sequence number): foyer's fetch task
    /// carries on in the background. Cleared by a restart (memory and tasks are gone).
    pub bg_lookups: Vec<(u64, u64)>,
}

thread_local! {
    pub static ST: RefCell<HybState> = RefCell::new(HybState::default());
    /// invoke sequence number of the client operation in progress
    pub static OP_INV: std::cell::Cell<u64> = const { std::cell::Cell::new(0) };
    /// the same for the second foreground client (C01: a concurrent client on its own keys), and that client's task
    pub static OP_INV_B: std::cell::Cell<u64> = const { std::cell::Cell::new(0) };
    pub static CLIENT_B_TASK: std::cell::Cell<usize> = const { std::cell::Cell::new(usize::MAX) };
    /// the task of the first foreground client (the scenario's main task)
    pub static CLIENT_A_TASK: std::cell::Cell<usize> = const { std::cell::Cell::new(usize::MAX) };
}

fn is_client_task(task: usize) -> bool {
    task == CLIENT_A_TASK.with(|c| c.get()) || task == CLIENT_B_TASK.with(|c| c.get())
}

fn cur_task() -> usize {
    shuttle::current::get_current_task().map(usize::from).unwrap_or(usize::MAX)
}

/// Invoke sequence number of the operation in progress of the client the current task belongs to (background tasks
/// count as the first client's, as before there was a second one).
pub fn op_inv() -> u64 {
    if CLIENT_B_TASK.with(|c| c.get()) == cur_task() { OP_INV_B.with(|c| c.get()) } else { OP_INV.with(|c| c.get()) }
}

pub fn hash_of(hmode: u8, k: u64) -> u64 {
    match hmode {
        1 => k / 2,
        2 => k.wrapping_mul(8),
        _ => k,
    }
}

fn on_foyer_event(kind: &'static str, a: u64, b: u64) {
    match kind {
        "shed" => {
            // b = reason | (engine sequence + 1) << 8 (0: the entry had no sequence yet)
            let (b, seq1) = (b & 0xff, b >> 8);
            hist::ev("shed", a, b, seq1);
            hist::probe(match b {
                1 => "shed_no_header_space",
                2 => "shed_buffer_size_limit",
                3 => "shed_larger_than_max_entry",
                5 => "shed_queue_threshold",
                _ => "shed_other",
            });
            ST.with(|s| {
                let mut s = s.borrow_mut();
                let hmode = s.hmode;
                for (k, m) in s.model.iter_mut() {
                    if hash_of(hmode, *k) == a {
                        if b == 3 {
                            m.oversize_shed = true;
                        } else {
                            m.shed = true;
                        }
                    }
                }
            });
        }
        "enqueue" => {
            hist::ev("enqueue", a, b, 0);
            ST.with(|s| {
                let mut s = s.borrow_mut();
                let hmode = s.hmode;
                let now = hist::now();
                s.enqueued.push((b, a, now));
                let task = shuttle::current::get_current_task().map(usize::from).unwrap_or(usize::MAX);
                // (a background task evicts and hands over in one go; its notifications are never stale)
                let fresh_after = if is_client_task(task) { op_inv() } else { 0 };
                let keys: Vec<u64> = s.model.keys().copied().filter(|k| hash_of(hmode, *k) == a).collect();
                for k in keys {
                    // (an eviction hands over within the operation that evicted: a notification left over from an
                    // earlier operation - e.g. an eviction that writes nothing under write-on-insertion - is stale)
                    if let Some(v) = s.last_leave.remove(&(task, k)).filter(|(_, at)| *at > fresh_after).map(|x| x.0) {
                        s.handoffs.push((k, v, b, task as u64));
                        s.handoff_at.push(now);
                    } else if let Some((_, cv)) = s.cur_write.filter(|(ck, _)| *ck == k && is_client_task(task)).or(s.cur_write_b.filter(|(ck, _)| *ck == k && is_client_task(task))) {
                        s.handoffs.push((k, cv, b, task as u64));
                        s.handoff_at.push(now);
                    }
                }
                for (k, m) in s.model.iter_mut() {
                    if hash_of(hmode, *k) == a {
                        m.shed = false;
                        m.oversize_shed = false;
                    }
                }
            });
        }
        "submitted" => {
            hist::ev("submitted", a, b, 0);
        }
        "delete" => {
            // is a key of that hash resident in memory at the moment the disk tier is told to delete it? (on the
            // unchanged tree remove() has taken it out of memory before)
            let (hmode, keys): (u8, Vec<u64>) = ST.with(|s| {
                let s = s.borrow();
                (s.hmode, s.model.keys().copied().collect())
            });
            let f = MEM_CONTAINS.with(|m| m.borrow_mut().take());
            let resident = match &f {
                Some(f) => keys.iter().filter(|k| hash_of(hmode, **k) == a).any(|k| f(*k)),
                None => false,
            };
            MEM_CONTAINS.with(|m| {
                let mut m = m.borrow_mut();
                if m.is_none() {
                    *m = f;
                }
            });
            hist::ev("disk_delete", a, resident as u64, 0);
        }
        "skip_young" => {
            hist::ev("skip_young", a, 0, 0);
            hist::probe("skip_young");
            // a skipped hand-off has still gone through the write-queue view (keeper) before being skipped
            ST.with(|s| {
                let mut s = s.borrow_mut();
                let hmode = s.hmode;
                let now = hist::now();
                let task = shuttle::current::get_current_task().map(usize::from).unwrap_or(usize::MAX);
                // (a background task evicts and hands over in one go; its notifications are never stale)
                let fresh_after = if is_client_task(task) { op_inv() } else { 0 };
                let keys: Vec<u64> = s.model.keys().copied().filter(|k| hash_of(hmode, *k) == a).collect();
                for k in keys {
                    // (an eviction hands over within the operation that evicted: a notification left over from an
                    // earlier operation - e.g. an eviction that writes nothing under write-on-insertion - is stale)
                    if let Some(v) = s.last_leave.remove(&(task, k)).filter(|(_, at)| *at > fresh_after).map(|x| x.0) {
                        s.handoffs.push((k, v, u64::MAX, task as u64));
                        s.handoff_at.push(now);
                    }
                }
            });
        }
        "shed_reinsertion_space" => {
            hist::ev("shed_reinsertion_space", a, b, 0);
        }
        "shed_reinsertion" => {
            hist::ev("shed_reinsertion", a, b, 0);
            hist::probe("shed_reinsertion");
            // a re-insertion may only be dropped when it does not fit: larger than the per-entry maximum, or larger
            // than the space left in the flush buffer (reported by the probe right before this one)
            let space = hist::with_events(|evs| evs.iter().rev().find(|e| e.kind == "shed_reinsertion_space" && e.a == a).map(|e| e.b as usize));
            let len = crate::hyboracle::entry_writes().iter().rev().find(|w| w.hash == a && w.sequence == b).map(|w| w.len);
            if let (Some(space), Some(len)) = (space, len) {
                let aligned = len.div_ceil(PAGE) * PAGE;
                let max_entry = ST.with(|s| s.borrow().max_entry);
                if max_entry > 0 && aligned <= max_entry && aligned <= space {
                    let prop = ST.with(|s| s.borrow().prop.clone());
                    hist::violation(
                        &prop,
                        "reinsertion-dropped-although-it-fits",
                        format!("the re-insertion of the entry of hash {a} (sequence {b}, {aligned} bytes aligned) was dropped although it is within the per-entry maximum ({max_entry}) and {space} bytes were left in the flush buffer"),
                        &[],
                    );
                }
            }
        }
        _ => {}
    }
}

// ---------------------------------------------------------------------------------------------------------------
// Recording listener of the memory tier (attributes evictions, and thereby disk hand-offs, to versions)

struct HybListener;

impl foyer::EventListener for HybListener {
    type Key = u64;
    type Value = Vec<u8>;
    fn on_leave(&self, reason: foyer::Event, key: &u64, value: &Vec<u8>) {
        let r = match reason {
            foyer::Event::Evict => 0,
            foyer::Event::Replace => 1,
            foyer::Event::Remove => 2,
            foyer::Event::Clear => 3,
        };
        let ver = match check_value(value) {
            Tagged::Ok { key: k, ver, .. } if k == *key => ver,
            _ => u32::MAX,
        };
        hist::ev("mem_leave", r, *key, ver as u64);
        callback_check("listener");
        // only an eviction is followed by a hand-off to the disk tier (a replaced / removed / cleared copy is not, and
        // must not be mistaken for the version a following write-on-insertion enqueue of the same key belongs to)
        if r == 0 {
            let task = shuttle::current::get_current_task().map(usize::from).unwrap_or(usize::MAX);
            ST.with(|s| {
                let mut s = s.borrow_mut();
                // under write-on-insertion an eviction hands nothing over unless the entry is disk-only (its Evict
                // notification is the drop of its last handle) or was loaded from a block on probation
                let disk_only = s.model.get(key).and_then(|m| m.versions.get(&ver)).map(|v| v.loc == 2).unwrap_or(false);
                if !s.woi || disk_only {
                    s.last_leave.insert((task, *key), (ver, hist::now()));
                }
            });
        }
    }
}

// ---------------------------------------------------------------------------------------------------------------
// Building the cache

pub struct Ctl {
    pub filter: Arc<FilterCtl>,
    pub holder: Holder,
    pub flush_switch: Switch,
}

pub async fn open(case: &Case, ctl: &Ctl) -> Result<HCache, String> {
    // live read faults are injected into the running store, not into its start-up
    let saved = simdev::DISK.with(|d| std::mem::take(&mut d.borrow_mut().read_faults));
    let r = open_inner(case, ctl).await;
    simdev::DISK.with(|d| d.borrow_mut().read_faults = saved);
    if let Ok(c) = &r {
        // lets the `delete` probe ask whether a key is resident in memory at that instant (classification aid)
        let mem = c.memory().clone();
        MEM_CONTAINS.with(|m| *m.borrow_mut() = Some(std::mem::ManuallyDrop::new(Box::new(move |k: u64| mem.contains(&k)))));
    }
    r
}

thread_local! {
    /// "is this key resident in the memory tier right now" for the store currently open (dropped at shutdown)
    /// ManuallyDrop: the handle is dropped explicitly in `shutdown` (inside the simulated execution); a run that ends
    /// abnormally leaks it rather than running foyer destructors from a thread-local destructor.
    static MEM_CONTAINS: RefCell<Option<std::mem::ManuallyDrop<Box<dyn Fn(u64) -> bool>>>> = const { RefCell::new(None) };
}

async fn open_inner(case: &Case, ctl: &Ctl) -> Result<HCache, String> {
    let g = geo(case);
    let dev = SimDevice::new(g.capacity);
    let policy = if case.get("policy") == 1 { HybridCachePolicy::WriteOnInsertion } else { HybridCachePolicy::WriteOnEviction };
    let pickers: Vec<Box<dyn EvictionPicker>> = match case.get("picker") {
        1 => vec![Box::new(FifoPicker::new(1.0))],
        2 => vec![Box::new(FifoPicker::new(0.0))],
        // a third of the blocks on probation (marks must move on as blocks are reclaimed and reused)
        3 => vec![Box::new(FifoPicker::new(0.34))],
        _ => vec![Box::new(InvalidRatioPicker::new(0.8)), Box::<FifoPicker>::default()],
    };
    let mut engine = BlockEngineConfig::new(dev)
        .with_block_size(g.block_size)
        .with_blob_index_size(g.blob_index_size)
        .with_flushers(g.flushers)
        .with_reclaimers(case.get("reclaimers").max(1) as usize)
        .with_clean_block_threshold(case.get("clean_thr").max(1) as usize)
        .with_buffer_pool_size(g.buf_per_flusher * g.flushers)
        .with_indexer_shards(case.get("idx_shards").max(1) as usize)
        .with_recover_concurrency(case.get("rec_conc").max(1) as usize)
        .with_tombstone_log(g.tomb)
        .with_eviction_pickers(pickers)
        .with_admission_filter(StorageFilter::new().with_condition(Admission(ctl.filter.clone())))
        .with_reinsertion_filter(StorageFilter::new().with_condition(Reinsertion(ctl.filter.clone())))
        .with_load_holder(ctl.holder.clone())
        .with_flush_switch(ctl.flush_switch.clone());
    if case.get("submit_thr_pages") > 0 {
        engine = engine.with_submit_queue_size_threshold(case.get("submit_thr_pages") as usize * PAGE);
    }
    let compression = match case.get("comp") {
        1 => Compression::Zstd,
        2 => Compression::Lz4,
        _ => Compression::None,
    };
    // StoreBuilder::with_compression never reaches the block engine at this commit (every entry is written
    // uncompressed); the guarded hook sets the engine's algorithm directly. `comp_real` is set for every generated
    // case; replay files recorded before the hook existed lack it and keep their behaviour.
    if case.get("comp_real") != 0 {
        engine = engine.verif_with_compression(compression);
    }
    let b = HybridCacheBuilder::new()
        .with_event_listener(Arc::new(HybListener))
        .with_policy(policy)
        .with_flush_on_close(case.get("flush_on_close") != 0)
        .memory(case.get("mem_cap").max(0) as usize)
        .with_shards(case.get("mem_shards").max(1) as usize)
        .with_eviction_config(eviction_config(case.get("algo"), case.get("variant")))
        .with_hash_builder(SimHasher { mode: case.get("hmode") as u8 })
        .with_weighter(|_, _| 1)
        .storage()
        .with_io_engine_config(Box::new(SimIoEngineConfig) as Box<dyn IoEngineConfig>)
        .with_engine_config(engine)
        .with_compression(compression)
        .with_recover_mode(RecoverMode::Quiet);
    b.build().await.map_err(|e| format!("{e}"))
}

pub fn new_ctl(case: &Case) -> Ctl {
    let filter = Arc::new(FilterCtl::default());
    filter.reject_mod.store(case.get("reject_mod").max(0) as u32, Ordering::Relaxed);
    filter.reinsert_mod.store(case.get("reinsert_mod").max(0) as u32, Ordering::Relaxed);
    filter.admission_mode.store(case.get("admit_mode").max(0) as u32, Ordering::Relaxed);
    Ctl { filter, holder: Holder::default(), flush_switch: Switch::default() }
}

// ---------------------------------------------------------------------------------------------------------------
// Judging a value that came back

fn shape_common(case: &Case, after_restart: bool) -> Vec<(&'static str, String)> {
    vec![
        ("policy", if case.get("policy") == 1 { "woi".into() } else { "woe".into() }),
        ("tomb", (case.get("tomb") != 0).to_string()),
        ("after_restart", after_restart.to_string()),
    ]
}

/// Returns the observed (key, version) or None for a rejected value; reports violations of the value oracle.
pub fn judge(case: &Case, k: u64, bytes: &[u8], via: &str) -> Res {
    let prop = case.property.as_str();
    let (restarts, km) = ST.with(|s| {
        let s = s.borrow();
        (s.restarts, s.model.get(&k).cloned().unwrap_or_default())
    });
    let mut shape = shape_common(case, restarts > 0);
    shape.push(("via", via.to_string()));
    match check_value(bytes) {
        Tagged::Garbage => {
            hist::violation(prop, "garbage-value", format!("lookup of key {k} via {via} returned {} bytes that no insert produced", bytes.len()), &shape);
            Res { tag: Res::BAD, ..Default::default() }
        }
        Tagged::Ok { key, ver, .. } if key != k => {
            hist::violation(prop, "foreign-value", format!("lookup of key {k} via {via} returned the value written for key {key} (v{ver})"), &shape);
            Res { tag: Res::BAD, key, ver, ..Default::default() }
        }
        Tagged::Ok { ver, len, .. } => {
            if km.cur == Some(ver) {
                if km.versions.len() >= 2 {
                    hist::probe("current_of_multi_version_key_served");
                }
                return Res::hit(k, ver, len as u32, 0);
            }
            if !km.versions.contains_key(&ver) {
                hist::violation(prop, "garbage-value", format!("lookup of key {k} via {via} returned unknown version v{ver}"), &shape);
                return Res { tag: Res::BAD, key: k, ver, ..Default::default() };
            }
            if km.shed && ver >= km.floor {
                // documented overload exclusion: the newer write was shed, an older copy may resurface
                hist::probe("stale_excused_by_shed");
                return Res::hit(k, ver, len as u32, 1);
            }
            // freshness is the subject of C01 / C09 / C17 only; other properties run their own oracles on the result
            if !matches!(prop, "C01" | "C09" | "C10") {
                return Res { tag: Res::HIT, key: k, ver, w: len as u32, aux: 2 };
            }
            // the classification aids below parse the whole write log: only the first few reports of a run get them
            let cheap = false; // classification aids are cached per write-log length
            if km.reported_wrong == Some(ver) {
                hist::probe("repeat_of_reported_wrong_version");
                return Res { tag: Res::BAD, key: k, ver, ..Default::default() };
            }
            ST.with(|s| {
                if let Some(m) = s.borrow_mut().model.get_mut(&k) {
                    m.reported_wrong = Some(ver);
                }
            });
            let (rule, what) = if ver < km.floor { ("removed-value", "a removed / cleared value") } else { ("stale-value", "an older version") };
            if case.get("wrap") != 0 && restarts > 0 {
                // the tombstone log of this run wraps: deletions beyond its capacity are outside the claim, the lost
                // tombstone lets the removed (or an older) copy come back
                hist::probe("older_value_excused_by_wrapped_tombstone_log");
                return Res { tag: Res::HIT, key: k, ver, w: len as u32, aux: 3 };
            }
            shape.push(("oversize_current", km.oversize_shed.to_string()));
            shape.push(("key_class", key_class(case, k).to_string()));
            if ver < km.floor {
                shape.push(("by_clear", km.floor_by_clear.to_string()));
                // was this key's hash handed to the disk tier after the removal although nothing was inserted since?
                let hmode = case.get("hmode") as u8;
                // was exactly this (removed) version handed to the disk tier by a background task's eviction whose
                // device write was issued only after the removal had started? (the hand-off raced the removal)
                let hmode = case.get("hmode") as u8;
                let client_task = shuttle::current::get_current_task().map(usize::from).unwrap_or(usize::MAX) as u64;
                let seqs: Vec<u64> = ST.with(|s| {
                    s.borrow().handoffs.iter().filter(|(hk, hv, _, t)| *hk == k && *hv == ver && *t != client_task).map(|x| x.2).collect()
                });
                let late = !seqs.is_empty()
                    && simdev::DISK.with(|d| {
                        d.borrow().writes.iter().any(|w| {
                            w.issue_seq > km.removed_at
                                && parser::parse_entries(&w.data).iter().any(|e| e.header.hash == hash_of(hmode, k) && seqs.contains(&e.header.sequence))
                        })
                    });
                // ... or was it put into the disk tier's write queue by another task after the removal had been invoked
                // (a lookup can be served from the queue before any device write happens)?
                let late = late
                    || ST.with(|s| {
                        let s = s.borrow();
                        s.handoffs.iter().zip(s.handoff_at.iter()).any(|((hk, hv, hs, t), at)| *hk == k && *hv == ver && *hs != u64::MAX && *t != client_task && *at > km.removed_at)
                    });
                shape.push(("handoff_during_or_after_removal", late.to_string()));
                // was the key still resident in memory when the removal reached the disk tier (Store::delete probe)?
                // remove() takes the entry out of memory first and deletes on disk second, so on the unchanged tree
                // nothing of the key is in memory by then (unless an abandoned lookup put it back, D23)
                let resident_at_delete = hist::with_events(|evs| {
                    let h = hash_of(hmode, k);
                    evs.iter().find(|e| e.kind == "disk_delete" && e.a == h && e.seq > km.removed_at).map(|e| e.b != 0).unwrap_or(false)
                });
                shape.push(("resident_in_memory_at_disk_delete", resident_at_delete.to_string()));
                // was a lookup of this key, started while the removed version was current and abandoned by its caller
                // while still pending, in flight when the removal started? (its disk load may complete afterwards
                // and put the removed value back into memory)
                let written = km.versions.get(&ver).map(|v| v.written_inv).unwrap_or(u64::MAX);
                let bg = ST.with(|s| s.borrow().bg_lookups.iter().any(|(bk, at)| *bk == k && *at > written && *at < km.removed_at));
                shape.push(("abandoned_lookup_pending_across_removal", bg.to_string()));
            }
            if ver >= km.floor {
                // did a delayed background hand-off of this older version get a higher engine sequence than the
                // hand-off of the current version?
                let client_task = shuttle::current::get_current_task().map(usize::from).unwrap_or(usize::MAX) as u64;
                let cur_written_inv = km.cur.and_then(|c| km.versions.get(&c)).map(|v| v.written_inv).unwrap_or(u64::MAX);
                let overtook = ST.with(|s| {
                    let s = s.borrow();
                    s.handoffs
                        .iter()
                        .zip(s.handoff_at.iter())
                        .any(|((hk, hv, _, t), at)| *hk == k && *hv == ver && *t != client_task && *at > cur_written_inv)
                        // two foreground clients: the older and the current version were handed over by two different
                        // tasks (e.g. the replaced copy evicted by the inserting client, the new copy by the other
                        // client's evict_all) and the older one drew the later engine sequence
                        || km.cur.map(|cur| {
                            s.handoffs.iter().zip(s.handoff_at.iter()).filter(|((hk, hv, hs, _), _)| *hk == k && *hv == ver && *hs != u64::MAX).any(|((_, _, s_old, t_old), at_old)| {
                                // ... or the older one entered the write queue only after the current version had been
                                // written (the two hand-overs overlap: the queue's view may end up with the older piece
                                // although the engine sequences are in order)
                                s.handoffs.iter().any(|(ck, cv, s_cur, t_cur)| *ck == k && *cv == cur && *s_cur != u64::MAX && t_cur != t_old && (s_old > s_cur || *at_old > cur_written_inv))
                            })
                        }).unwrap_or(false)
                });
                shape.push(("racing_background_handoff_of_older_version", overtook.to_string()));
                // is the CURRENT version in the gap between leaving memory (evicted by a background task) and
                // entering the write queue? (the hand-off was not complete when this lookup started)
                let read_start = op_inv();
                let in_gap = km.cur.map(|cur| {
                    let left: Option<u64> = hist::with_events(|evs| {
                        evs.iter()
                            .rev()
                            .find(|e| e.kind == "mem_leave" && e.a == 0 && e.b == k && e.c == cur as u64 && e.task as u64 != client_task)
                            .map(|e| e.seq)
                    });
                    match left {
                        Some(l) => ST.with(|s| {
                            let s = s.borrow();
                            !s.handoffs.iter().zip(s.handoff_at.iter()).any(|((hk, hv, _, _), at)| *hk == k && *hv == cur && *at > l && *at < read_start)
                        }),
                        None => false,
                    }
                });
                shape.push(("current_version_handoff_in_flight", in_gap.unwrap_or(false).to_string()));
                // (an eviction is notified after the entry has left memory under the shard lock: the notification of
                // the current version's eviction may come after this lookup; `complete_shapes` looks again afterwards)
                if let Some(cur) = km.cur {
                    shape.push(("_k", k.to_string()));
                    shape.push(("_cur", cur.to_string()));
                    shape.push(("_read_start", read_start.to_string()));
                    shape.push(("_reader", client_task.to_string()));
                }
                if restarts > 0 && !cheap {
                    shape.push(("sequence_regression_in_a_block", crate::hyboracle::block_has_sequence_regression(case).to_string()));
                }
            }
            if ver < km.floor && !cheap {
                // was some entry of this key's hash written twice under the same sequence (i.e. re-inserted by a
                // reclaim)? a re-insertion that races the removal re-indexes the removed entry
                let h = hash_of(case.get("hmode") as u8, k);
                let reinserted = {
                    let ws = crate::hyboracle::entry_writes();
                    let mut seen = std::collections::BTreeMap::new();
                    for w in ws.iter().filter(|w| w.hash == h) {
                        *seen.entry(w.sequence).or_insert(0) += 1;
                    }
                    seen.values().any(|c| *c >= 2)
                };
                shape.push(("entry_of_key_was_reinserted", reinserted.to_string()));
            }
            if restarts > 0 && case.get("tomb") != 0 && !cheap {
                let h = hash_of(case.get("hmode") as u8, k);
                let lost = crate::hyboracle::tombstones_lost().iter().any(|(th, _)| *th == h);
                shape.push(("tombstone_of_key_lost_in_log", lost.to_string()));
                shape.push(("flushers_gt_1", (case.get("flushers") > 1).to_string()));
            }
            hist::violation(
                prop,
                rule,
                format!("lookup of key {k} via {via} returned v{ver} ({what}); current is {:?}, floor v{}", km.cur, km.floor),
                &shape,
            );
            Res { tag: Res::BAD, key: k, ver, ..Default::default() }
        }
    }
}

fn model_write(k: u64, ver: u32, len: usize, loc: u8, class: u32) {
    ST.with(|s| {
        let mut s = s.borrow_mut();
        let m = s.model.entry(k).or_default();
        m.cur = Some(ver);
        m.reported_wrong = None;
        m.versions.insert(ver, VerInfo { len, loc, class, written_inv: op_inv() });
    });
}

/// Makes the key and the version known to the model before the operation runs (probes fired from inside the operation
/// are attributed through the model) without making it current yet.
pub fn model_register(k: u64, ver: u32, len: usize, loc: u8, class: u32) {
    ST.with(|s| {
        let mut s = s.borrow_mut();
        let m = s.model.entry(k).or_default();
        m.versions.insert(ver, VerInfo { len, loc, class, written_inv: op_inv() });
    });
}

fn model_remove(k: u64) {
    ST.with(|s| {
        let mut s = s.borrow_mut();
        let nv = s.next_ver + 1;
        let m = s.model.entry(k).or_default();
        m.cur = None;
        m.floor = nv;
        m.shed = false;
        m.oversize_shed = false;
        m.floor_by_clear = false;
        m.reported_wrong = None;
        m.removed_at = op_inv();
    });
}

fn model_clear() {
    ST.with(|s| {
        let mut s = s.borrow_mut();
        let nv = s.next_ver + 1;
        let now = op_inv();
        for m in s.model.values_mut() {
            m.cur = None;
            m.floor = nv;
            m.shed = false;
            m.oversize_shed = false;
            m.floor_by_clear = true;
            m.reported_wrong = None;
            m.removed_at = now;
        }
    });
}

pub fn fresh_ver() -> u32 {
    ST.with(|s| {
        let mut s = s.borrow_mut();
        s.next_ver += 1;
        s.next_ver
    })
}

// ---------------------------------------------------------------------------------------------------------------
// Executor

pub struct Hyb {
    pub case: Case,
    pub ctl: Ctl,
    pub cache: Option<HCache>,
    pub g: Geo,
    pub held: Vec<HEntry>,
}

/// Placement class of a key for the whole run (0 default, 1 in-memory only, 2 on-disk).
pub fn key_class(case: &Case, k: u64) -> u8 {
    let (im, od) = (case.get("inmem_mod") as u64, case.get("ondisk_mod") as u64);
    if case.get("ondisk_key") as u64 == k + 1 {
        return 2;
    }
    if im > 0 && k % im == 1 {
        1
    } else if od > 0 && k % od == 2 {
        2
    } else {
        0
    }
}

fn loc_of(l: u8) -> Location {
    match l {
        1 => Location::InMem,
        2 => Location::OnDisk,
        _ => Location::Default,
    }
}

impl Hyb {
    pub fn unhold_flush(&mut self) {
        if self.ctl.flush_switch.is_on() {
            hist::ev("flush_unheld", 0, 0, 0);
            self.ctl.flush_switch.off();
        }
    }

    pub async fn shutdown(&mut self, graceful: bool) {
        self.held.clear();
        if let Some(f) = MEM_CONTAINS.with(|m| m.borrow_mut().take()) {
            drop(std::mem::ManuallyDrop::into_inner(f));
        }
        if graceful {
            self.unhold_flush();
        }
        if let Some(c) = self.cache.take() {
            if graceful {
                hist::ev("close_inv", 0, 0, 0);
                if let Err(e) = c.close().await {
                    hist::note(format!("close error: {e}"));
                }
                hist::ev("close_ret", 0, 0, 0);
            }
            drop(c);
        }
        if graceful {
            // trailing flushes (e.g. the waits a reclaim leaves behind) finish before the runtime goes away
            simdev::quiesce().await;
        }
        runtime_shutdown().await;
        Spawner::verif_reset();
    }

    pub async fn reopen(&mut self) -> bool {
        self.ctl = new_ctl(&self.case);
        match open(&self.case, &self.ctl).await {
            Ok(c) => {
                self.cache = Some(c);
                ST.with(|s| {
                    let mut s = s.borrow_mut();
                    s.restarts += 1;
                    s.bg_lookups.clear();
                    s.closed = false;
                });
                hist::ev("reopened", 0, 0, 0);
                true
            }
            Err(e) => {
                hist::violation(&self.case.property, "reopen-failed", format!("opening the store failed: {e}"), &[]);
                false
            }
        }
    }

    pub async fn exec_op(&mut self, op: &Op) -> Res {
        let case = self.case.clone();
        let Some(cache) = self.cache.clone() else { return Res::unit() };
        // operations that wait for the flushers must not run into a held flush
        if matches!(op, Op::Wait | Op::Close | Op::Reopen | Op::Clear) {
            self.unhold_flush();
        }
        match op {
            Op::Insert { k, w, loc, hold, .. } => {
                let ver = fresh_ver();
                let len = value_len(&self.g, *w, ver);
                let v = make_value(*k, ver, len, case.get("comp") != 0 && ver % 2 == 0);
                model_register(*k, ver, len, *loc, *w);
                ST.with(|s| s.borrow_mut().cur_write = Some((*k, ver)));
                let e = if *loc == 0 && ver % 2 == 0 {
                    cache.insert(*k, v)
                } else {
                    cache.insert_with_properties(*k, v, HybridCacheProperties::default().with_location(loc_of(*loc)))
                };
                model_write(*k, ver, len, *loc, *w);
                hist::ev("h_insert", *k, ver as u64, *loc as u64);
                if *hold {
                    self.held.push(e);
                } else {
                    drop(e);
                }
                ST.with(|s| s.borrow_mut().cur_write = None);
                if *loc == 2 {
                    hist::ev("h_ondisk_resident", *k, ver as u64, cache.memory().contains(k) as u64);
                }
                Res::hit(*k, ver, len as u32, 0)
            }
            Op::WriterInsert { k, w, force, .. } => {
                let ver = fresh_ver();
                let len = value_len(&self.g, *w, ver);
                let v = make_value(*k, ver, len, false);
                let wr = cache.storage_writer(*k);
                let wr = if *force { wr.force() } else { wr };
                model_register(*k, ver, len, 2, *w);
                ST.with(|s| s.borrow_mut().cur_write = Some((*k, ver)));
                let r = wr.insert(v);
                match r {
                    Some(e) => {
                        // the entry is handed to the disk tier when the returned handle is dropped
                        drop(e);
                        ST.with(|s| s.borrow_mut().cur_write = None);
                        model_write(*k, ver, len, 2, *w);
                        hist::ev("h_insert", *k, ver as u64, 2);
                        Res::hit(*k, ver, len as u32, 0)
                    }
                    None => Res::miss(),
                }
            }
            Op::Get { k, hold } => match cache.get(k).await {
                Ok(Some(e)) => {
                    let r = judge(&case, *k, e.value(), "get");
                    note_source(*k, e.source());
                    hist::ev("h_get", *k, r.ver as u64, src(e.source()) | (age_of(&e) << 8));
                    if age_of(&e) == 2 {
                        hist::probe("loaded_age_old");
                    }
                    if *hold {
                        self.held.push(e);
                    }
                    r
                }
                Ok(None) => {
                    hist::ev("h_get", *k, 0, 0);
                    Res::miss()
                }
                Err(e) => Res::err(crate::memscn::err_kind(&e)),
            },
            Op::Fetch { k, w, yields, fail, hold, .. } => {
                let kk = *k;
                let (g, yields, fail, class) = (self.g.clone(), *yields, *fail, *w);
                let kloc = key_class(&case, kk);
                let fut = cache.get_or_fetch(k, move || async move {
                    hist::ev("origin_start", kk, 0, 0);
                    for _ in 0..yields {
                        shuttle::future::yield_now().await;
                    }
                    if fail {
                        hist::ev("origin_done", kk, 0, 1);
                        return Err::<(Vec<u8>, HybridCacheProperties), _>(anyhow::anyhow!("origin failed"));
                    }
                    // the origin returns the source-of-truth value at the moment it resolves
                    let cur = ST.with(|s| s.borrow().model.get(&kk).and_then(|m| m.cur.map(|v| (v, m.versions[&v].len))));
                    let (ver, len) = match cur {
                        Some(x) => x,
                        None => {
                            let ver = fresh_ver();
                            let len = value_len(&g, class, ver);
                            model_write(kk, ver, len, 0, class);
                            (ver, len)
                        }
                    };
                    hist::ev("origin_done", kk, ver as u64, 0);
                    ST.with(|s| s.borrow_mut().cur_write = Some((kk, ver)));
                    // the fetched entry carries the placement advice of its key's class (advice never alternates)
                    Ok((make_value(kk, ver, len, false), HybridCacheProperties::default().with_location(loc_of(kloc))))
                });
                match fut.await {
                    Ok(e) => {
                        let r = judge(&case, *k, e.value(), "get_or_fetch");
                        let s = src(e.source());
                        hist::ev("h_fetch", *k, r.ver as u64, s | (age_of(&e) << 8));
                        if *hold {
                            self.held.push(e);
                        }
                        Res { aux: s, ..r }
                    }
                    Err(e) => Res::err(crate::memscn::err_kind(&e)),
                }
            }
            Op::Contains { k } => Res::boolean(cache.contains(k)),
            Op::Remove { k } => {
                cache.remove(k);
                model_remove(*k);
                hist::ev("h_remove", *k, 0, 0);
                Res::unit()
            }
            Op::Delete { k } => {
                cache.storage().delete(k);
                cache.memory().remove(k);
                model_remove(*k);
                hist::ev("h_remove", *k, 0, 0);
                Res::unit()
            }
            Op::Clear => {
                match cache.clear().await {
                    Ok(()) => {
                        model_clear();
                        hist::ev("h_clear", 0, 0, 0);
                        Res::unit()
                    }
                    Err(e) => Res::err(crate::memscn::err_kind(&e)),
                }
            }
            Op::EvictAll => {
                cache.memory().evict_all();
                hist::ev("h_evict_all", 0, 0, 0);
                Res::unit()
            }
            Op::Wait => {
                hist::ev("wait_inv", 0, 0, 0);
                cache.storage().wait().await;
                hist::ev("wait_ret", 0, 0, 0);
                if case.property == "C07" {
                    drop(cache);
                    crate::hyboracle::c07_checkpoint(self, "after-wait").await;
                }
                Res::unit()
            }
            Op::Close => {
                let first_close = ST.with(|s| s.borrow().close_ver.is_none());
                if first_close {
                    record_residents(&case, &cache);
                }
                hist::ev("close_inv", 0, 0, 0);
                let r = cache.close().await;
                hist::ev("close_ret", 0, 0, 0);
                ST.with(|s| s.borrow_mut().closed = true);
                match r {
                    Ok(()) => Res::boolean(true),
                    Err(_) => Res::boolean(false),
                }
            }
            Op::Reopen => {
                drop(cache);
                self.shutdown(true).await;
                // writes issued after an explicit close() were ignored by the disk tier: they do not survive
                ST.with(|s| {
                    let mut s = s.borrow_mut();
                    if let Some(cv) = s.close_ver.take() {
                        for m in s.model.values_mut() {
                            if m.cur.map(|v| v > cv).unwrap_or(false) {
                                m.cur = None;
                                m.floor = m.floor.max(cv + 1);
                            }
                        }
                    }
                });
                let ok = self.reopen().await;
                if ok && case.property == "C07" {
                    crate::hyboracle::c07_checkpoint(self, "after-reopen").await;
                }
                Res::boolean(ok)
            }
            Op::DropHandle { idx } => {
                if !self.held.is_empty() {
                    let i = *idx as usize % self.held.len();
                    drop(self.held.remove(i));
                }
                Res::unit()
            }
            Op::Yield { n } => {
                for _ in 0..*n {
                    shuttle::future::yield_now().await;
                }
                Res::unit()
            }
            Op::Ctl { what, arg } => {
                match what {
                    // admission mode
                    10 => self.ctl.filter.admission_mode.store(*arg as u32, Ordering::Relaxed),
                    // load throttle switch
                    11 => {
                        if *arg != 0 {
                            cache.storage().load_throttle_switch().throttle()
                        } else {
                            cache.storage().load_throttle_switch().unthrottle()
                        }
                    }
                    // hold / release disk loads
                    12 => {
                        if *arg != 0 {
                            self.ctl.holder.hold()
                        } else {
                            self.ctl.holder.unhold()
                        }
                    }
                    // wait for the flushers without a checkpoint (ends the current flush batch)
                    14 => {
                        self.unhold_flush();
                        cache.storage().wait().await;
                    }
                    // hold / release flushing: while held, everything handed to the disk tier stays in its write queue
                    13 => {
                        if *arg != 0 {
                            if !self.ctl.flush_switch.is_on() {
                                hist::fault("flush_held");
                            }
                            self.ctl.flush_switch.on()
                        } else {
                            self.unhold_flush()
                        }
                    }
                    // crash-restart: the process dies (no close, nothing flushed any more), then the store is reopened on
                    // what the device holds
                    30 => {
                        drop(cache);
                        hist::fault("crash_restart");
                        self.shutdown(false).await;
                        return Res::boolean(self.reopen().await);
                    }
                    // drop without close: the last handle is dropped; foyer closes (and, configured so, flushes) in a
                    // background task. The harness waits for exactly that task, lets the device go idle, shuts the
                    // runtime down and reopens.
                    31 => {
                        self.unhold_flush();
                        self.held.clear();
                        let first_close = ST.with(|s| s.borrow().close_ver.is_none());
                        if first_close {
                            record_residents(&case, &cache);
                        }
                        hist::fault("drop_without_close");
                        hist::ev("close_inv", 1, 0, 0);
                        drop(cache);
                        if let Some(f) = MEM_CONTAINS.with(|m| m.borrow_mut().take()) {
                            drop(std::mem::ManuallyDrop::into_inner(f));
                        }
                        let n0 = Spawner::verif_task_count();
                        drop(self.cache.take());
                        let n1 = Spawner::verif_task_count();
                        if n1 == n0 {
                            hist::probe("drop_spawned_no_close_task");
                        }
                        let mut spins = 0u32;
                        while !(n0..n1).all(Spawner::verif_is_finished) {
                            shuttle::future::yield_now().await;
                            spins += 1;
                            if spins > 400_000 {
                                hist::violation(&case.property, "close-on-drop-did-not-finish", "the background close started by dropping the last handle did not finish".into(), &[]);
                                break;
                            }
                        }
                        hist::ev("close_ret", 1, 0, 0);
                        simdev::quiesce().await;
                        ST.with(|s| s.borrow_mut().closed = true);
                        self.shutdown(false).await;
                        ST.with(|s| s.borrow_mut().close_ver = None);
                        return Res::boolean(self.reopen().await);
                    }
                    // abandoned lookup: the caller starts a lookup of key `arg & 0xffff`, polls it `arg >> 16` times and
                    // then drops the future; foyer's fetch task carries on in the background, next to the client's
                    // following operations
                    21 => {
                        let kk = *arg & 0xffff;
                        let polls = (*arg >> 16) as usize;
                        hist::ev("abandoned_lookup_start", kk, polls as u64, 0);
                        let mut fut = Box::pin(cache.get(&kk));
                        let mut done = None;
                        for _ in 0..polls {
                            if let std::task::Poll::Ready(r) = std::future::poll_fn(|cx| std::task::Poll::Ready(std::future::Future::poll(fut.as_mut(), cx))).await {
                                done = Some(r);
                                break;
                            }
                            shuttle::future::yield_now().await;
                        }
                        drop(fut);
                        return match done {
                            Some(Ok(Some(e))) => {
                                let r = judge(&case, kk, e.value(), "get");
                                note_source(kk, e.source());
                                hist::ev("h_get", kk, r.ver as u64, src(e.source()) | (age_of(&e) << 8));
                                r
                            }
                            Some(Ok(None)) => Res::miss(),
                            Some(Err(e)) => Res::err(crate::memscn::err_kind(&e)),
                            None => {
                                hist::fault("caller_abandoned_lookup");
                                let inv = op_inv();
                                ST.with(|s| s.borrow_mut().bg_lookups.push((kk, inv)));
                                Res::unit()
                            }
                        };
                    }
                    // held fetch: disk loads are held while a get_or_fetch of key `arg` is in flight; the origin must
                    // not start before the disk lookup has resolved
                    20 => {
                        let kk = *arg;
                        self.ctl.holder.hold();
                        hist::ev("held_fetch_start", kk, 0, 0);
                        let g = self.g.clone();
                        let kloc = key_class(&case, kk);
                        let fut = cache.get_or_fetch(&kk, move || async move {
                            hist::ev("origin_start", kk, 0, 0);
                            let cur = ST.with(|s| s.borrow().model.get(&kk).and_then(|m| m.cur.map(|v| (v, m.versions[&v].len))));
                            let (ver, len) = match cur {
                                Some(x) => x,
                                None => {
                                    let ver = fresh_ver();
                                    let len = value_len(&g, 1, ver);
                                    model_write(kk, ver, len, kloc, 1);
                                    (ver, len)
                                }
                            };
                            hist::ev("origin_done", kk, ver as u64, 0);
                            ST.with(|s| s.borrow_mut().cur_write = Some((kk, ver)));
                            Ok::<_, anyhow::Error>((make_value(kk, ver, len, false), HybridCacheProperties::default().with_location(loc_of(kloc))))
                        });
                        let mut fut = Box::pin(fut);
                        let mut done = None;
                        for _ in 0..6 {
                            if let std::task::Poll::Ready(r) = std::future::poll_fn(|cx| std::task::Poll::Ready(std::future::Future::poll(fut.as_mut(), cx))).await {
                                done = Some(r);
                                break;
                            }
                            shuttle::future::yield_now().await;
                        }
                        hist::ev("held_fetch_release", kk, done.is_some() as u64, 0);
                        self.ctl.holder.unhold();
                        let r = match done {
                            Some(r) => r,
                            None => fut.await,
                        };
                        return match r {
                            Ok(e) => {
                                let r = judge(&case, kk, e.value(), "get_or_fetch");
                                let s = src(e.source());
                                hist::ev("h_fetch", kk, r.ver as u64, s | (age_of(&e) << 8));
                                Res { aux: s, ..r }
                            }
                            Err(e) => Res::err(crate::memscn::err_kind(&e)),
                        };
                    }
                    _ => {}
                }
                Res::unit()
            }
            _ => Res::unit(),
        }
    }
}

pub fn age_of(e: &HEntry) -> u64 {
    match e.properties().age() {
        foyer::Age::Fresh => 0,
        foyer::Age::Young => 1,
        foyer::Age::Old => 2,
    }
}

/// Reach probes + non-triviality: a read served by the disk tier for a key that has had several versions.
pub fn note_source(k: u64, s: Source) {
    if s == Source::Disk {
        hist::probe("served_from_disk");
        let multi = ST.with(|st| st.borrow().model.get(&k).map(|m| m.versions.len() >= 2).unwrap_or(false));
        if multi {
            hist::set_nontrivial();
        }
    }
}

pub fn src(s: Source) -> u64 {
    match s {
        Source::Outer => 1,
        Source::Memory => 2,
        Source::Disk => 3,
    }
}

pub fn reinstall_event_sink() {
    foyer_common::verif::set_event_sink(on_foyer_event);
}

pub fn init_state(case: &Case) {
    ST.with(|s| {
        *s.borrow_mut() = HybState {
            prop: case.property.clone(),
            hmode: case.get("hmode") as u8,
            keys: case.get("keys").max(1) as u64,
            check_locks: case.get("check_locks") != 0,
            woi: case.get("policy") == 1,
            max_entry: geo(case).max_entry,
            ..Default::default()
        };
    });
    simdev::reset_disk(case.get("max_delay").max(0) as usize);
    if case.get("live_corrupt") > 0 {
        simdev::DISK.with(|d| {
            let mut d = d.borrow_mut();
            d.read_faults.corrupt_per_mille = case.get("live_corrupt") as u32;
            d.read_faults.error_per_mille = case.get("live_error") as u32;
        });
    }
    foyer_common::verif::set_event_sink(on_foyer_event);
}

/// Entry point, runs inside the simulated execution (main task).
pub fn exec(case: &Case) {
    init_state(case);
    let case = case.clone();
    shuttle::future::block_on(async move {
        CLIENT_A_TASK.with(|c| c.set(cur_task()));
        let ctl = new_ctl(&case);
        let cache = match open(&case, &ctl).await {
            Ok(c) => c,
            Err(e) => {
                hist::violation(&case.property, "open-failed", format!("opening a fresh store failed: {e}"), &[]);
                runtime_shutdown().await;
                return;
            }
        };
        let mut h = Hyb { g: geo(&case), case: case.clone(), ctl, cache: Some(cache), held: vec![] };
        let ops = case.clients.first().cloned().unwrap_or_default();
        // C01: a second foreground client works concurrently on its own keys (`keys ..`): its inserts evict the first
        // client's entries (and vice versa) at arbitrary points of the first client's operations
        let client_b = if case.get("client_b") != 0 && case.clients.len() > 1 {
            let cache = h.cache.clone().unwrap();
            hist::fault("second_foreground_client");
            Some(shuttle::future::spawn(second_client(cache, case.clone(), h.g.clone(), case.clients[1].clone())))
        } else {
            None
        };
        for (idx, op) in ops.iter().enumerate() {
            let inv = hist::ev("inv", 0, idx as u64, 0);
            OP_INV.with(|c| c.set(inv));
            let res = h.exec_op(op).await;
            let ret = hist::ev("ret", 0, idx as u64, res.tag as u64);
            ST.with(|s| s.borrow_mut().oplog.push(OpRec { client: 0, idx, op: op.clone(), inv, ret, res }));
        }
        if let Some(jh) = client_b {
            let _ = jh.await;
            CLIENT_B_TASK.with(|c| c.set(usize::MAX));
        }
        if case.clients.len() > 1 && matches!(case.property.as_str(), "C06" | "C11") {
            concurrent_round(&mut h).await;
        }
        crate::hyboracle::end_of_workload(&mut h).await;
        // everything worth observing has been observed; what remains is the tear-down of the simulated runtime
        crate::run::phase_done();
        h.shutdown(true).await;
        hist::ev("end", 0, 0, 0);
    });
}

/// What memory holds right before a close (explicit, or by dropping the last handle): the version of each resident key
/// and how many references besides this probe are outstanding (handles held by the client or by background tasks; under
/// LRU such an entry is pinned).
fn record_residents(case: &Case, cache: &HCache) {
    let keys = case.get("keys").max(1) as u64 + case.get("fresh_keys").max(0) as u64;
    for k in 0..keys {
        if cache.memory().contains(&k) {
            if let Some(e) = cache.memory().get(&k) {
                let extra = e.refs().saturating_sub(1);
                if let Tagged::Ok { key, ver, .. } = check_value(e.value()) {
                    if key == k {
                        hist::ev("resident_at_close", k, ver as u64, extra as u64);
                    }
                }
            }
        }
    }
    ST.with(|s| {
        let mut s = s.borrow_mut();
        s.close_ver = Some(s.next_ver);
    });
}

/// The second foreground client of C01: inserts, lookups and removes on its own key range, judged by the same value
/// oracle. It never restarts the store (the generator keeps restarts out of the first client's list when it is on).
async fn second_client(cache: HCache, case: Case, g: Geo, ops: Vec<Op>) {
    CLIENT_B_TASK.with(|c| c.set(cur_task()));
    for (idx, op) in ops.iter().enumerate() {
        let inv = hist::ev("inv", 1, idx as u64, 0);
        OP_INV_B.with(|c| c.set(inv));
        let res = match op {
            Op::Insert { k, w, .. } => {
                let ver = fresh_ver();
                let len = value_len(&g, *w, ver);
                let loc = key_class(&case, *k);
                model_register(*k, ver, len, loc, *w);
                ST.with(|s| s.borrow_mut().cur_write_b = Some((*k, ver)));
                drop(cache.insert_with_properties(*k, make_value(*k, ver, len, false), HybridCacheProperties::default().with_location(loc_of(loc))));
                model_write(*k, ver, len, loc, *w);
                hist::ev("h_insert", *k, ver as u64, loc as u64);
                ST.with(|s| s.borrow_mut().cur_write_b = None);
                Res::hit(*k, ver, len as u32, 0)
            }
            Op::Get { k, .. } => match cache.get(k).await {
                Ok(Some(e)) => {
                    let r = judge(&case, *k, e.value(), "get");
                    hist::ev("h_get", *k, r.ver as u64, src(e.source()) | (age_of(&e) << 8));
                    r
                }
                Ok(None) => Res::miss(),
                Err(e) => Res::err(crate::memscn::err_kind(&e)),
            },
            Op::Remove { k } => {
                cache.remove(k);
                model_remove(*k);
                hist::ev("h_remove", *k, 0, 0);
                Res::unit()
            }
            Op::Yield { n } => {
                for _ in 0..*n {
                    shuttle::future::yield_now().await;
                }
                Res::unit()
            }
            _ => Res::unit(),
        };
        let ret = hist::ev("ret", 1, idx as u64, res.tag as u64);
        ST.with(|s| s.borrow_mut().oplog.push(OpRec { client: 1, idx, op: op.clone(), inv, ret, res }));
    }
}

/// One caller of the concurrent round (its own simulated task).
async fn caller(cache: HCache, case: Case, g: Geo, client: usize, ops: Vec<Op>) {
    for (idx, op) in ops.iter().enumerate() {
        let inv = hist::ev("inv", client as u64, idx as u64, 0);
        let mut logged = op.clone();
        let res = match op {
            Op::Fetch { k, yields, fail, .. } => {
                let (kk, yields, fail) = (*k, *yields, *fail);
                let ver = fresh_ver();
                let len = value_len(&g, 1, ver);
                let kloc = key_class(&case, kk);
                logged = Op::Fetch { k: kk, ver, w: 1, yields: yields, fail, hold: false };
                model_register(kk, ver, len, kloc, 1);
                let fut = cache.get_or_fetch(&kk, move || async move {
                    struct Guard(u64, u32, bool);
                    impl Drop for Guard {
                        fn drop(&mut self) {
                            if !self.2 {
                                hist::ev("origin_drop", self.0, self.1 as u64, 0);
                            }
                        }
                    }
                    let mut gd = Guard(kk, ver, false);
                    hist::ev("origin_start", kk, ver as u64, 0);
                    for _ in 0..yields {
                        shuttle::future::yield_now().await;
                    }
                    shuttle::thread::yield_now();
                    gd.2 = true;
                    hist::ev("origin_done", kk, ver as u64, fail as u64);
                    if fail {
                        Err(anyhow::anyhow!("origin failed"))
                    } else {
                        Ok((make_value(kk, ver, len, false), HybridCacheProperties::default().with_location(loc_of(kloc))))
                    }
                });
                hist::ev("registered", client as u64, kk, 1);
                match fut.await {
                    Ok(e) => match check_value(e.value()) {
                        Tagged::Ok { key, ver, len } if key == kk => Res::hit(kk, ver, len as u32, src(e.source())),
                        _ => {
                            hist::violation(&case.property, "foreign-value", format!("get_or_fetch of key {kk} returned bytes of another key / garbage"), &[("where", "hybrid".into())]);
                            Res { tag: Res::BAD, ..Default::default() }
                        }
                    },
                    Err(e) => Res::err(crate::memscn::err_kind(&e)),
                }
            }
            Op::Get { k, .. } => {
                let fut = cache.get(k);
                hist::ev("registered", client as u64, *k, 0);
                match fut.await {
                    Ok(Some(e)) => match check_value(e.value()) {
                        Tagged::Ok { key, ver, len } if key == *k => Res::hit(*k, ver, len as u32, src(e.source())),
                        _ => {
                            hist::violation(&case.property, "foreign-value", format!("get of key {k} returned bytes of another key / garbage"), &[("where", "hybrid".into())]);
                            Res { tag: Res::BAD, ..Default::default() }
                        }
                    },
                    Ok(None) => Res::miss(),
                    Err(e) => Res::err(crate::memscn::err_kind(&e)),
                }
            }
            Op::Insert { k, loc, .. } => {
                let ver = fresh_ver();
                let len = value_len(&g, 1, ver);
                let kloc = key_class(&case, *k);
                logged = Op::Insert { k: *k, ver, w: 1, loc: kloc, hold: false };
                model_register(*k, ver, len, kloc, 1);
                drop(cache.insert_with_properties(*k, make_value(*k, ver, len, false), HybridCacheProperties::default().with_location(loc_of(kloc))));
                Res::unit()
            }
            Op::Remove { k } => {
                cache.remove(k);
                Res::unit()
            }
            Op::Yield { n } => {
                for _ in 0..*n {
                    shuttle::future::yield_now().await;
                }
                Res::unit()
            }
            _ => Res::unit(),
        };
        let ret = hist::ev("ret", client as u64, idx as u64, res.tag as u64);
        ST.with(|s| s.borrow_mut().oplog.push(OpRec { client, idx, op: logged, inv, ret, res }));
    }
}

/// Clients 1.. run concurrently against the hybrid cache (C06 / C11 hybrid parts) while the main task plays the
/// controller: it can hold or throttle the disk lookups, cancel the fetch tasks, and joins every caller.
async fn concurrent_round(h: &mut Hyb) {
    let case = h.case.clone();
    let Some(cache) = h.cache.clone() else { return };
    let hold = case.get("hold_loads") != 0;
    if hold {
        h.ctl.holder.hold();
        hist::ev("hold", 0, 0, 0);
    }
    if case.get("throttle_loads") != 0 {
        cache.storage().load_throttle_switch().throttle();
        hist::fault("disk_lookup_throttled");
    }
    let tasks_before = Spawner::verif_task_count();
    let mut handles = vec![];
    for (i, ops) in case.clients.iter().enumerate().skip(1) {
        handles.push(shuttle::future::spawn(caller(cache.clone(), case.clone(), h.g.clone(), i, ops.clone())));
    }
    for _ in 0..case.get("ctl_yields").max(0) {
        shuttle::future::yield_now().await;
    }
    if case.get("abort_fetch") != 0 {
        // the runtime cancels the fetch tasks spawned in this round
        let inv = hist::ev("inv", 0, 9000, 0);
        hist::fault("fetch_task_cancelled");
        for t in tasks_before..Spawner::verif_task_count() {
            // only the fetch tasks: a real runtime never cancels one of the disk tier's io tasks on its own (cancelled
            // in the middle of a tombstone-page write it leaves the page buffer taken, and the next flush panics)
            if !Spawner::verif_task_kind(t).contains("RawFetch") {
                continue;
            }
            Spawner::verif_abort(t);
        }
        let ret = hist::ev("ret", 0, 9000, 0);
        ST.with(|s| s.borrow_mut().oplog.push(OpRec { client: 0, idx: 9000, op: Op::Ctl { what: 1, arg: 0 }, inv, ret, res: Res::unit() }));
    }
    if hold {
        hist::ev("unhold", 0, 0, 0);
        h.ctl.holder.unhold();
    }
    for jh in handles {
        let _ = jh.await;
    }
    if case.get("throttle_loads") != 0 {
        cache.storage().load_throttle_switch().unthrottle();
    }
    h.unhold_flush();
    hist::ev("round_done", 0, 0, 0);
}

/// Classification aids that need the events after the report: was the current version evicted by another task (its
/// notification may follow the lookup) while its hand-off had not been enqueued when the lookup started?
fn complete_shapes() {
    let evs = hist::events_clone();
    let (handoffs, handoff_at) = ST.with(|s| {
        let s = s.borrow();
        (s.handoffs.clone(), s.handoff_at.clone())
    });
    hist::amend_violations(|v| {
        if v.rule != "stale-value" || v.shape.get("current_version_handoff_in_flight").map(|x| x.as_str()) != Some("false") {
            return;
        }
        let get = |key: &str| v.shape.get(key).and_then(|x| x.parse::<u64>().ok());
        let (Some(k), Some(cur), Some(read_start), Some(reader)) = (get("_k"), get("_cur"), get("_read_start"), get("_reader")) else { return };
        let evicted_by_other = evs.iter().any(|e| e.kind == "mem_leave" && e.a == 0 && e.b == k && e.c == cur && e.task as u64 != reader);
        let handed_before = handoffs.iter().zip(handoff_at.iter()).any(|((hk, hv, hs, _), at)| *hk == k && *hv as u64 == cur && *hs != u64::MAX && *at < read_start);
        if evicted_by_other && !handed_before {
            v.shape.insert("current_version_handoff_in_flight".into(), "true".into());
        }
    });
}

pub fn oracle(case: &Case) {
    complete_shapes();
    crate::hyboracle::post(case);
}

// re-exports for the oracle module
pub type Keys = BTreeSet<u64>;
