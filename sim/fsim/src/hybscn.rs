//! Hybrid scenario (placeholder until simdev is in place).
use crate::types::Case;
pub fn exec(_case: &Case) {
    panic!("fsim: hybrid scenario not built yet");
}
pub fn oracle(_case: &Case) {}
