//! Case generators for the memory scenario (swarm style: sizes, workload mix, algorithm and knobs vary per run).

use std::collections::BTreeMap;

use crate::{
    choice::Rng,
    types::{Case, Op},
};

pub struct VerCounter(pub u32);
impl VerCounter {
    pub fn next(&mut self) -> u32 {
        self.0 += 1;
        self.0
    }
}

fn weighted(rng: &mut Rng, table: &[(u32, u8)]) -> u8 {
    let total: u32 = table.iter().map(|t| t.0).sum();
    let mut x = rng.below(total as usize) as u32;
    for (w, id) in table {
        if x < *w {
            return *id;
        }
        x -= *w;
    }
    table[0].1
}

struct Mix {
    insert: u32,
    get: u32,
    fetch: u32,
    contains: u32,
    touch: u32,
    remove: u32,
    clear: u32,
    resize: u32,
    evict_all: u32,
    flush: u32,
    drop_h: u32,
    clone_h: u32,
    yld: u32,
    hold_pct: usize,
    max_w: u32,
    loc_pct: usize,
    fail_pct: usize,
    resize_max: u32,
}

fn gen_ops(rng: &mut Rng, n: usize, keys: u64, mix: &Mix, vc: &mut VerCounter) -> Vec<Op> {
    let table = [
        (mix.insert, 0u8),
        (mix.get, 1),
        (mix.fetch, 2),
        (mix.contains, 3),
        (mix.touch, 4),
        (mix.remove, 5),
        (mix.clear, 6),
        (mix.resize, 7),
        (mix.evict_all, 8),
        (mix.flush, 9),
        (mix.drop_h, 10),
        (mix.clone_h, 11),
        (mix.yld, 12),
    ];
    let mut ops = vec![];
    for _ in 0..n {
        let k = rng.below(keys as usize) as u64;
        let hold = rng.chance(mix.hold_pct, 100);
        let w = rng.below(mix.max_w as usize + 1) as u32;
        let op = match weighted(rng, &table) {
            0 => {
                let loc = if rng.chance(mix.loc_pct, 100) { 1 + rng.below(2) as u8 } else { 0 };
                Op::Insert { k, ver: vc.next(), w, loc, hold }
            }
            1 => Op::Get { k, hold },
            2 => Op::Fetch { k, ver: vc.next(), w, yields: rng.below(4) as u8, fail: rng.chance(mix.fail_pct, 100), hold },
            3 => Op::Contains { k },
            4 => Op::Touch { k },
            5 => Op::Remove { k },
            6 => Op::Clear,
            7 => Op::Resize { cap: rng.below(mix.resize_max as usize + 1) as u32 },
            8 => Op::EvictAll,
            9 => Op::Flush,
            10 => Op::DropHandle { idx: rng.below(8) as u8 },
            11 => Op::CloneHandle { idx: rng.below(8) as u8 },
            _ => Op::Yield { n: 1 + rng.below(2) as u8 },
        };
        ops.push(op);
    }
    ops
}

fn base_cfg(rng: &mut Rng) -> BTreeMap<String, i64> {
    let mut c = BTreeMap::new();
    c.insert("algo".into(), rng.below(5) as i64);
    c.insert("variant".into(), rng.below(2) as i64);
    c.insert("hmode".into(), 0);
    c.insert("sweep".into(), 1);
    c.insert("max_steps".into(), 300_000);
    c
}

pub fn generate(prop: &str, thorough: bool, rng: &mut Rng) -> Case {
    let mut cfg = base_cfg(rng);
    let mut vc = VerCounter(0);
    let mut clients: Vec<Vec<Op>> = vec![];
    let scale = if thorough { 2 } else { 1 };
    match prop {
        "C05" | "C18" => {
            let c18 = prop == "C18";
            let keys = 3 + rng.below(5) as u64;
            let shards = 1 + rng.below(4) as i64;
            let cap = if rng.chance(1, 6) { rng.below(3) as i64 } else { 1 + rng.below(10) as i64 };
            cfg.insert("keys".into(), keys as i64);
            cfg.insert("shards".into(), shards);
            cfg.insert("cap".into(), cap);
            if c18 && rng.chance(1, 2) {
                cfg.insert("algo".into(), 1);
            }
            cfg.insert("filter_mod".into(), if rng.chance(1, 5) { 3 } else { 0 });
            cfg.insert("release_insert".into(), 1);
            let mix = Mix {
                insert: 40,
                get: if c18 { 30 } else { 15 },
                fetch: 5,
                contains: 3,
                touch: if rng.chance(1, 2) { 8 } else { 0 },
                remove: 8,
                clear: if rng.chance(1, 2) { 4 } else { 0 },
                resize: if rng.chance(1, 2) { 5 } else { 0 },
                evict_all: 3,
                flush: 1,
                drop_h: if c18 { 20 } else { 10 },
                clone_h: if c18 { 6 } else { 2 },
                yld: 0,
                hold_pct: if c18 { 60 } else { 35 },
                max_w: if rng.chance(1, 3) { 1 } else { 5 },
                loc_pct: if rng.chance(1, 4) { 10 } else { 0 },
                fail_pct: 10,
                resize_max: 10,
            };
            // a quarter of the runs: some fetches are abandoned by their caller (the waiter's channel is closed when
            // the fetch task delivers; the reference reserved for it must be given back)
            let abandon = rng.chance(1, 4);
            if rng.chance(7, 10) {
                cfg.insert("stepwise".into(), 1);
                let n = (6 + rng.below(30)) * scale;
                clients.push(gen_ops(rng, n, keys, &mix, &mut vc));
                if !c18 && cfg.get("filter_mod") == Some(&0) && rng.chance(1, 4) {
                    cfg.insert("fill".into(), 1);
                    cfg.insert("fill_cap".into(), rng.below(9) as i64);
                }
            } else {
                let nc = 2 + rng.below(2);
                for _ in 0..nc {
                    let n = (3 + rng.below(6)) * scale;
                    clients.push(gen_ops(rng, n, keys, &mix, &mut vc));
                }
            }
            // single-client runs: now and then a fetch is overtaken by an explicit insert of its key (closed round)
            if clients.len() == 1 && cfg.get("filter_mod") == Some(&0) && rng.chance(1, 3) {
                for _ in 0..1 + rng.below(2) {
                    let at = rng.below(clients[0].len() + 1);
                    clients[0].insert(at, Op::FetchThenInsert { k: rng.below(keys as usize) as u64, ver: vc.next(), ins_ver: vc.next(), w: 1 + rng.below(2) as u32, yields: 1 + rng.below(2) as u8 });
                }
            }
            if abandon {
                for ops in clients.iter_mut() {
                    for _ in 0..1 + rng.below(2) {
                        let at = rng.below(ops.len() + 1);
                        ops.insert(at, Op::AbandonFetch { k: rng.below(keys as usize) as u64, ver: vc.next(), w: 1 + rng.below(2) as u32, yields: 1 + rng.below(3) as u8, polls: rng.below(3) as u8 });
                    }
                }
            }
        }
        "C11" => {
            let keys = 1 + rng.below(2) as u64;
            cfg.insert("keys".into(), keys as i64);
            cfg.insert("shards".into(), 1 + rng.below(2) as i64);
            cfg.insert("cap".into(), 2 + rng.below(6) as i64);
            let k = rng.below(keys as usize) as u64;
            // a fifth of the runs: the key's values are rejected by the admission filter (every insert of it is phantom)
            if rng.chance(1, 5) {
                cfg.insert("filter_mod".into(), k as i64 + 1);
            }
            // with two keys, a third of the runs: the keys collide on their full hash and the other key has a fetch in
            // flight too (rounds are per key, not per hash: the insert must close only its own key's round)
            let collide = keys == 2 && rng.chance(1, 3);
            if collide {
                cfg.insert("hmode".into(), 1);
            }
            let waiters = 1 + rng.below(3) + collide as usize;
            for wi in 0..waiters {
                let mut ops = vec![];
                if rng.chance(1, 3) {
                    ops.push(Op::Yield { n: 1 });
                }
                let k = if collide && wi == 0 { 1 - k } else { k };
                ops.push(Op::Fetch { k, ver: vc.next(), w: 1, yields: 1 + rng.below(5) as u8, fail: rng.chance(1, 10), hold: rng.chance(1, 3) });
                if rng.chance(1, 2) {
                    ops.push(Op::Get { k, hold: false });
                }
                clients.push(ops);
            }
            let mut ins = vec![];
            if rng.chance(1, 2) {
                ins.push(Op::Yield { n: 1 + rng.below(2) as u8 });
            }
            ins.push(Op::Insert { k, ver: vc.next(), w: 1, loc: 0, hold: rng.chance(1, 3) });
            for _ in 0..rng.below(3) {
                ins.push(if rng.chance(2, 3) { Op::Get { k, hold: false } } else { Op::Yield { n: 2 } });
            }
            // second round: the inserted value leaves the cache again and a new fetch round of the key starts while the
            // first round's origin may still be inside its final poll (its late result must not be taken for the new round's)
            if rng.chance(1, 2) {
                ins.push(if rng.chance(2, 3) { Op::Remove { k } } else { Op::EvictAll });
                ins.push(Op::Fetch { k, ver: vc.next(), w: 1, yields: rng.below(3) as u8, fail: false, hold: false });
                if rng.chance(1, 2) {
                    ins.push(Op::Get { k, hold: false });
                }
            }
            clients.push(ins);
            if rng.chance(1, 3) {
                let mix = Mix {
                    insert: 10, get: 30, fetch: 20, contains: 5, touch: 0, remove: 10, clear: 0, resize: 0, evict_all: 5, flush: 0,
                    drop_h: 0, clone_h: 0, yld: 20, hold_pct: 0, max_w: 1, loc_pct: 0, fail_pct: 10, resize_max: 0,
                };
                let n_ops = 2 + rng.below(3);
                clients.push(gen_ops(rng, n_ops, keys, &mix, &mut vc));
            }
        }
        "C06" => {
            let keys = 1 + rng.below(2) as u64;
            cfg.insert("keys".into(), keys as i64);
            cfg.insert("shards".into(), 1 + rng.below(2) as i64);
            cfg.insert("cap".into(), 2 + rng.below(6) as i64);
            let callers = 2 + rng.below(4);
            let fail_pct = if rng.chance(1, 2) { 30 } else { 0 };
            for _ in 0..callers {
                let mut ops = vec![];
                let n = 1 + rng.below(2);
                for _ in 0..n {
                    if rng.chance(1, 3) {
                        ops.push(Op::Yield { n: 1 + rng.below(2) as u8 });
                    }
                    let k = rng.below(keys as usize) as u64;
                    ops.push(Op::Fetch { k, ver: vc.next(), w: 1, yields: rng.below(4) as u8, fail: rng.chance(fail_pct, 100), hold: false });
                }
                clients.push(ops);
            }
            // an eighth of the runs: a first round whose origin is slow (and often fails) gets closed by an explicit
            // insert, the key leaves again, and a second round starts while the first origin is still resolving
            if rng.chance(1, 8) {
                let k = rng.below(keys as usize) as u64;
                clients.truncate(2);
                clients.insert(0, vec![Op::Fetch { k, ver: vc.next(), w: 1, yields: 1 + rng.below(4) as u8, fail: rng.chance(2, 3), hold: false }]);
                let mut b = vec![Op::Yield { n: 1 + rng.below(2) as u8 }, Op::Insert { k, ver: vc.next(), w: 1, loc: 0, hold: false }];
                b.push(if rng.chance(2, 3) { Op::Remove { k } } else { Op::EvictAll });
                b.push(Op::Fetch { k, ver: vc.next(), w: 1, yields: rng.below(3) as u8, fail: false, hold: false });
                clients.insert(1, b);
            } else if rng.chance(1, 3) {
                let k = rng.below(keys as usize) as u64;
                let mut ops = vec![Op::Yield { n: 1 + rng.below(3) as u8 }];
                ops.push(match rng.below(3) {
                    0 => Op::Insert { k, ver: vc.next(), w: 1, loc: 0, hold: false },
                    1 => Op::Remove { k },
                    _ => Op::Ctl { what: 1, arg: k },
                });
                clients.push(ops);
            }
        }
        "C13" => {
            let keys = 3 + rng.below(4) as u64;
            cfg.insert("keys".into(), keys as i64);
            cfg.insert("shards".into(), 1 + rng.below(4) as i64);
            cfg.insert("cap".into(), 1 + rng.below(8) as i64);
            cfg.insert("pipe".into(), 1);
            cfg.insert("filter_mod".into(), if rng.chance(1, 3) { 3 } else { 0 });
            let mix = Mix {
                insert: 40, get: 15, fetch: 6, contains: 2, touch: 3, remove: 10, clear: 4, resize: 4, evict_all: 4, flush: 4,
                drop_h: 12, clone_h: 3, yld: 0, hold_pct: 40, max_w: 3, loc_pct: 20, fail_pct: 10, resize_max: 8,
            };
            if rng.chance(6, 10) {
                let n_ops = (6 + rng.below(24)) * scale;
                clients.push(gen_ops(rng, n_ops, keys, &mix, &mut vc));
                cfg.insert("stepwise".into(), 1);
                // the disk tier hands a disk-only piece back now and then
                if rng.chance(1, 3) {
                    for _ in 0..1 + rng.below(3) {
                        let at = rng.below(clients[0].len() + 1);
                        clients[0].insert(at, Op::Ctl { what: 40, arg: 0 });
                    }
                }
                // a quarter of these: no event listener at all (the disk hand-off must not depend on one)
                if rng.chance(1, 4) {
                    cfg.insert("no_listener".into(), 1);
                }
            } else {
                for _ in 0..(2 + rng.below(3)) {
                    let n_ops = (3 + rng.below(5)) * scale;
                    clients.push(gen_ops(rng, n_ops, keys, &mix, &mut vc));
                }
            }
        }
        "C02" | "C17" => {
            let c17 = prop == "C17";
            let keys = if c17 { 4 } else { 3 + rng.below(2) as u64 };
            cfg.insert("keys".into(), keys as i64);
            let shards = 1 + rng.below(4) as i64;
            cfg.insert("shards".into(), shards);
            if c17 {
                cfg.insert("hmode".into(), if rng.chance(2, 3) { 1 } else { 2 });
            }
            let mix = Mix {
                insert: 35, get: 30, fetch: 8, contains: 5, touch: 4, remove: 12, clear: 2, resize: 2, evict_all: 2, flush: 0,
                drop_h: 3, clone_h: 0, yld: 3, hold_pct: 20, max_w: 1, loc_pct: 0, fail_pct: 10, resize_max: 6,
            };
            if c17 && rng.chance(1, 2) {
                // ample capacity, single client: nothing may get lost
                cfg.insert("ample".into(), 1);
                cfg.insert("cap".into(), 64 * shards);
                cfg.insert("stepwise".into(), 1);
                let m2 = Mix { resize: 0, evict_all: 0, max_w: 1, ..mix };
                let n_ops = (6 + rng.below(16)) * scale;
                clients.push(gen_ops(rng, n_ops, keys, &m2, &mut vc));
            } else {
                cfg.insert("cap".into(), 1 + rng.below(6) as i64);
                for _ in 0..(2 + rng.below(3)) {
                    let n_ops = 3 + rng.below(3);
                    clients.push(gen_ops(rng, n_ops, keys, &mix, &mut vc));
                }
                // a tenth of the runs: one key is contended by fetch rounds that get closed and reopened (a fetch with a
                // slow origin, an explicit insert that closes its round, the key leaving again, a new fetch round)
                if !c17 && rng.chance(1, 10) {
                    let k = rng.below(keys as usize) as u64;
                    clients.truncate(2);
                    clients.insert(0, vec![Op::Fetch { k, ver: vc.next(), w: 1, yields: 1 + rng.below(4) as u8, fail: false, hold: false }, Op::Get { k, hold: false }]);
                    let mut b = vec![Op::Yield { n: 1 + rng.below(2) as u8 }, Op::Insert { k, ver: vc.next(), w: 1, loc: 0, hold: false }];
                    b.push(if rng.chance(2, 3) { Op::Remove { k } } else { Op::EvictAll });
                    b.push(Op::Fetch { k, ver: vc.next(), w: 1, yields: rng.below(3) as u8, fail: false, hold: false });
                    b.push(Op::Get { k, hold: false });
                    clients.insert(1, b);
                }
            }
        }
        "C16" => {
            let keys = 3 + rng.below(3) as u64;
            cfg.insert("keys".into(), keys as i64);
            cfg.insert("shards".into(), 1);
            cfg.insert("cap".into(), 1 + rng.below(5) as i64);
            cfg.insert("reenter".into(), 1);
            cfg.insert("check_locks".into(), 1);
            cfg.insert("pipe".into(), rng.below(2) as i64);
            // a quarter of the runs: no event listener (whether destructors run under a lock must not depend on one)
            if rng.chance(1, 4) {
                cfg.insert("no_listener".into(), 1);
            }
            cfg.insert("filter_mod".into(), if rng.chance(1, 3) { 3 } else { 0 });
            cfg.insert("sweep".into(), 0);
            let mix = Mix {
                insert: 40, get: 15, fetch: 8, contains: 2, touch: 4, remove: 10, clear: 4, resize: 4, evict_all: 4, flush: 3,
                drop_h: 12, clone_h: 3, yld: 0, hold_pct: 40, max_w: 2, loc_pct: 20, fail_pct: 10, resize_max: 6,
            };
            if rng.chance(6, 10) {
                let n_ops = (5 + rng.below(16)) * scale;
                clients.push(gen_ops(rng, n_ops, keys, &mix, &mut vc));
            } else {
                for _ in 0..(2 + rng.below(3)) {
                    let n_ops = 3 + rng.below(4);
                    clients.push(gen_ops(rng, n_ops, keys, &mix, &mut vc));
                }
            }
        }
        _ => panic!("memgen: unknown property {prop}"),
    }
    if clients.len() > 1 {
        // concurrent resizes leave a per-shard mix of capacities that no property defines: keep resizes in client 0
        for c in clients.iter_mut().skip(1) {
            for op in c.iter_mut() {
                if matches!(op, Op::Resize { .. }) {
                    *op = Op::EvictAll;
                }
            }
        }
    }
    Case { property: prop.to_string(), scenario: "mem".into(), cfg, clients }
}
