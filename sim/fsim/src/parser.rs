//! Independent parser of the on-disk format (written from the format description, sharing no code with foyer):
//! entry headers, blob indexes, whole blocks. Used to attribute device writes to (key, version, sequence), to compare
//! what the flusher wrote with what recovery/lookup read back, and to judge images.

use twox_hash::XxHash64;

use crate::types::{Tagged, check_value};

pub const PAGE: usize = 4096;
pub const ENTRY_HEADER: usize = 36;
const ENTRY_MAGIC: u32 = 0x9703_2700;

fn be32(b: &[u8]) -> u32 {
    u32::from_be_bytes(b[..4].try_into().unwrap())
}
fn be64(b: &[u8]) -> u64 {
    u64::from_be_bytes(b[..8].try_into().unwrap())
}
pub fn xx64(b: &[u8]) -> u64 {
    XxHash64::oneshot(0, b)
}

#[derive(Clone, Debug, PartialEq, Eq)]
pub struct Header {
    pub key_len: usize,
    pub value_len: usize,
    pub hash: u64,
    pub sequence: u64,
    pub checksum: u64,
    pub compression: u8,
}

pub fn parse_header(b: &[u8]) -> Option<Header> {
    if b.len() < ENTRY_HEADER {
        return None;
    }
    let v = be32(&b[32..36]);
    if v & 0xFFFF_FF00 != ENTRY_MAGIC {
        return None;
    }
    let compression = (v & 0xFF) as u8;
    if compression > 2 {
        return None;
    }
    Some(Header {
        key_len: be32(&b[0..4]) as usize,
        value_len: be32(&b[4..8]) as usize,
        hash: be64(&b[8..16]),
        sequence: be64(&b[16..24]),
        checksum: be64(&b[24..32]),
        compression,
    })
}

/// The serialized value (8-byte length prefix + bytes) of a compressed entry; None if the stream is damaged.
pub fn decompress(bytes: &[u8], compression: u8) -> Option<Vec<u8>> {
    use std::io::Read;
    let mut len = [0u8; 8];
    let mut out = vec![];
    match compression {
        1 => {
            let mut d = zstd::Decoder::new(bytes).ok()?;
            d.read_exact(&mut len).ok()?;
            let l = u64::from_le_bytes(len) as usize;
            if l > (1 << 26) {
                return None;
            }
            out.extend_from_slice(&len);
            out.resize(8 + l, 0);
            d.read_exact(&mut out[8..]).ok()?;
        }
        2 => {
            let mut d = lz4::Decoder::new(bytes).ok()?;
            d.read_exact(&mut len).ok()?;
            let l = u64::from_le_bytes(len) as usize;
            if l > (1 << 26) {
                return None;
            }
            out.extend_from_slice(&len);
            out.resize(8 + l, 0);
            d.read_exact(&mut out[8..]).ok()?;
        }
        _ => return None,
    }
    Some(out)
}

/// Decompresses a value stream that must hold exactly `n` bytes: None if fewer can be read or more follow.
pub fn decompress_exact(bytes: &[u8], compression: u8, n: usize) -> Option<Vec<u8>> {
    use std::io::Read;
    let mut out = vec![0u8; n];
    let mut extra = [0u8; 1];
    match compression {
        1 => {
            let mut d = zstd::Decoder::new(bytes).ok()?;
            d.read_exact(&mut out).ok()?;
            if matches!(d.read(&mut extra), Ok(1)) {
                return None;
            }
        }
        2 => {
            let mut d = lz4::Decoder::new(bytes).ok()?;
            d.read_exact(&mut out).ok()?;
            if matches!(d.read(&mut extra), Ok(1)) {
                return None;
            }
        }
        _ => return None,
    }
    Some(out)
}

/// An entry as found in a byte range.
#[derive(Clone, Debug)]
pub struct ParsedEntry {
    pub header: Header,
    /// offset of the header inside the parsed buffer
    pub at: usize,
    /// total unaligned length (header + value + key)
    pub len: usize,
    pub checksum_ok: bool,
    /// key decoded as u64 little endian (when key_len == 8)
    pub key: Option<u64>,
    /// value tag when stored uncompressed as a `Vec<u8>` (8-byte little-endian length prefix)
    pub value: Option<Tagged>,
}

pub fn parse_entry_at(buf: &[u8], at: usize) -> Option<ParsedEntry> {
    let h = parse_header(buf.get(at..)?)?;
    let body = at + ENTRY_HEADER;
    let end = body.checked_add(h.value_len)?.checked_add(h.key_len)?;
    if end > buf.len() {
        return None;
    }
    let checksum_ok = xx64(&buf[body..end]) == h.checksum;
    let key = if h.key_len == 8 { Some(u64::from_le_bytes(buf[body + h.value_len..end].try_into().unwrap())) } else { None };
    let value = if h.compression == 0 && h.value_len >= 8 {
        let l = u64::from_le_bytes(buf[body..body + 8].try_into().unwrap()) as usize;
        if l + 8 == h.value_len { Some(check_value(&buf[body + 8..body + 8 + l])) } else { None }
    } else if checksum_ok && h.compression != 0 {
        // compressed `Vec<u8>`: decompress with the library directly (only entries whose checksum matches)
        decompress(&buf[body..body + h.value_len], h.compression).and_then(|raw| {
            if raw.len() < 8 {
                return None;
            }
            let l = u64::from_le_bytes(raw[..8].try_into().unwrap()) as usize;
            if l + 8 == raw.len() { Some(check_value(&raw[8..])) } else { None }
        })
    } else {
        None
    };
    Some(ParsedEntry { len: ENTRY_HEADER + h.value_len + h.key_len, header: h, at, checksum_ok, key, value })
}

/// Parses a data write (a run of page-aligned entries starting at offset 0 of the buffer).
pub fn parse_entries(buf: &[u8]) -> Vec<ParsedEntry> {
    let mut out = vec![];
    let mut at = 0usize;
    while at + ENTRY_HEADER <= buf.len() {
        match parse_entry_at(buf, at) {
            Some(e) => {
                let adv = e.len.div_ceil(PAGE) * PAGE;
                out.push(e);
                at += adv;
            }
            None => break,
        }
    }
    out
}

#[derive(Clone, Debug, PartialEq, Eq)]
pub struct IndexEntry {
    pub hash: u64,
    pub sequence: u64,
    /// offset relative to the start of the blob
    pub offset: u32,
    pub len: u32,
}

/// Parses a blob index (`| checksum 8 | count 4 | entries 24 each |`, big endian).
pub fn parse_blob_index(buf: &[u8]) -> Option<Vec<IndexEntry>> {
    if buf.len() < 12 {
        return None;
    }
    if xx64(&buf[8..]) != be64(&buf[0..8]) {
        return None;
    }
    let count = be32(&buf[8..12]) as usize;
    if 12 + count * 24 > buf.len() {
        return None;
    }
    let mut v = Vec::with_capacity(count);
    for i in 0..count {
        let b = &buf[12 + i * 24..12 + (i + 1) * 24];
        v.push(IndexEntry { hash: be64(&b[0..8]), sequence: be64(&b[8..16]), offset: be32(&b[16..20]), len: be32(&b[20..24]) });
    }
    Some(v)
}

/// One entry located in a block by following blob indexes from offset 0.
#[derive(Clone, Debug, PartialEq, Eq)]
pub struct Located {
    pub hash: u64,
    pub sequence: u64,
    /// offset in the block
    pub offset: usize,
    pub len: usize,
}

/// Scans a block image the way the format prescribes: blob index at the current offset, entries inside the blob,
/// next blob right after the last entry; stops at the first clean or damaged blob.
/// Returns the located entries and a list of format violations (overlaps, misalignment, out of block).
pub fn scan_block(block: &[u8], blob_index_size: usize) -> (Vec<Located>, Vec<String>) {
    scan_block_inner(block, blob_index_size, true)
}

/// The same walk without the sequence rule (classification aids want to SEE sequence regressions).
pub fn scan_block_raw(block: &[u8], blob_index_size: usize) -> (Vec<Located>, Vec<String>) {
    scan_block_inner(block, blob_index_size, false)
}

fn scan_block_inner(block: &[u8], blob_index_size: usize, stop_at_regression: bool) -> (Vec<Located>, Vec<String>) {
    let mut out: Vec<Located> = vec![];
    let mut problems = vec![];
    let mut off = 0usize;
    while off + blob_index_size <= block.len() {
        let Some(idx) = parse_blob_index(&block[off..off + blob_index_size]) else { break };
        if idx.is_empty() {
            break;
        }
        let mut prev_end = blob_index_size;
        // sequences never decrease within a block: a blob that starts below the last sequence seen belongs to an
        // earlier life of the block (the block was cleaned and rewritten up to here) - the scan ends before it
        if let (Some(first), Some(last)) = (idx.first(), out.last()) {
            if stop_at_regression && first.sequence < last.sequence {
                break;
            }
        }
        for e in &idx {
            let start = e.offset as usize;
            let alen = (e.len as usize).div_ceil(PAGE) * PAGE;
            if start % PAGE != 0 {
                problems.push(format!("entry hash {} at blob+{} not page aligned", e.hash, start));
            }
            if start < prev_end {
                problems.push(format!("entry hash {} at blob+{} overlaps the previous entry or the index (prev end {})", e.hash, start, prev_end));
            }
            if off + start + alen > block.len() {
                problems.push(format!("entry hash {} at block+{} len {} leaves the block", e.hash, off + start, alen));
            }
            prev_end = start + alen;
            out.push(Located { hash: e.hash, sequence: e.sequence, offset: off + start, len: e.len as usize });
        }
        let last = idx.last().unwrap();
        off += last.offset as usize + (last.len as usize).div_ceil(PAGE) * PAGE;
    }
    (out, problems)
}
