#!/bin/bash
# usage: confirm_all.sh <wt-suffix e.g. C01>  — confirms every mutant found in /tmp/wt-<suffix>/.mutants (in that worktree)
set -u
id="$1"; wt=/tmp/wt-$id
: > /tmp/confirm-$id.log
for d in "$wt"/.mutants/mutant_*.diff; do
  [ -f "$d" ] || continue
  k=$(basename "$d" .diff); k=${k#mutant_}
  crate=$(grep -m1 -i '^crate:' "$wt/.mutants/note_$k.txt" | sed 's/^[Cc]rate:[[:space:]]*//; s/[[:space:]].*$//')
  [ -d "$wt/$crate" ] || { echo "mutant $k of $wt: unknown crate '$crate'" | tee -a /tmp/confirm-$id.log; continue; }
  /verif/tools/confirm_mutant.sh "$wt" "$k" "$crate" | tee -a /tmp/confirm-$id.log
done
