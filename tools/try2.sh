#!/bin/bash
# usage: try2.sh <patch.diff> <ID> [<ID>...]   — like try_mutant.sh, but in the separate try environment
# (/tmp/verif-try/sim built against the scratch worktree /tmp/repo-try): /repo and /verif/sim are not touched.
set -u
patch="$1"; shift
cd /tmp/repo-try || exit 2
git checkout -q -- . ; git apply "$patch" || { echo "patch does not apply" >&2; exit 2; }
trap 'git -C /tmp/repo-try checkout -q -- .' EXIT
cd /tmp/verif-try/sim || exit 2
if ! CARGO_NET_OFFLINE=true cargo build --release --offline -q 2> /tmp/verif-try/build.log; then
  grep -E "^error" -A8 /tmp/verif-try/build.log | head -30; echo "BUILD FAILED with the change (hooks on)"; exit 2
fi
for id in "$@"; do
  out=$(VERIF_BUDGET_S=${BUDGET:-120} VERIF_EVIDENCE_DIR=/tmp/mut-evidence /tmp/verif-try/sim/target/release/fsim "$id" --tier ${TIER:-quick} 2>&1); code=$?
  echo "$id exit=$code $(echo "$out" | grep -m1 '^VIOLATION')"
  echo "$out" | grep -E '^\s+\[C' | head -3 | cut -c1-420
  echo "$out" | tail -1 | cut -c1-300
done
