#!/usr/bin/env python3
"""One-off helper used to write the add-only import hooks in /repo (kept for reference / regeneration).
For a `use ...;` statement that starts at a line matching `start_pat` it
  * puts `#[cfg(not(foyer_verif))]` above the statement, and
  * appends a `#[cfg(foyer_verif)]` copy in which the names in `divert` are removed, followed by
    `#[cfg(foyer_verif)] use <target>::{names};`
Existing lines are left untouched."""
import re, sys

def find_use(lines, start_idx):
    # statement spans until the line that ends with ';' at brace depth 0
    depth = 0
    for i in range(start_idx, len(lines)):
        depth += lines[i].count('{') - lines[i].count('}')
        if depth == 0 and lines[i].rstrip().endswith(';'):
            return i
    raise SystemExit("unterminated use")

def strip_names(stmt, names):
    s = stmt
    for n in names:
        # remove "Name," or ", Name" or "Name" inside braces
        s2 = re.sub(r'(?<![A-Za-z0-9_])' + re.escape(n) + r'\s*,\s*', '', s, count=1)
        if s2 == s:
            s2 = re.sub(r',\s*' + re.escape(n) + r'(?![A-Za-z0-9_])', '', s, count=1)
        if s2 == s:
            s2 = re.sub(r'(?<![A-Za-z0-9_])' + re.escape(n) + r'(?![A-Za-z0-9_])', '', s, count=1)
        assert s2 != s, (n, stmt)
        s = s2
    return s

def hook(path, start_line_text, divert, target, indent=''):
    lines = open(path).read().split('\n')
    idxs = [i for i, l in enumerate(lines) if l == start_line_text]
    assert len(idxs) >= 1, (path, start_line_text)
    i = idxs[0]
    j = find_use(lines, i)
    stmt = '\n'.join(lines[i:j + 1])
    new_stmt = strip_names(stmt, divert)
    # clean up empty groups like "atomic::{}" -> remove
    new_stmt = re.sub(r'\n\s*[a-z_]+::\{\s*\},?', '', new_stmt)
    new_stmt = re.sub(r',?\s*[a-z_]+::\{\s*\}', '', new_stmt)
    add = [indent + '#[cfg(foyer_verif)]'] + new_stmt.split('\n') + \
          [indent + '#[cfg(foyer_verif)]', indent + 'use ' + target + '::{' + ', '.join(divert) + '};']
    lines = lines[:i] + [indent + '#[cfg(not(foyer_verif))]'] + lines[i:j + 1] + add + lines[j + 1:]
    open(path, 'w').write('\n'.join(lines))

if __name__ == '__main__':
    pass
