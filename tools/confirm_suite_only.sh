#!/bin/bash
# usage: confirm_suite_only.sh <worktree> <k>  — re-runs only the repository's suite with the change applied
wt="$1"; k="$2"; cd "$wt" || exit 2
export CARGO_NET_OFFLINE=true CARGO_TARGET_DIR="$wt/target"
git checkout -q -- . ; rm -f */tests/mutant_demo_*.rs
git apply ".mutants/mutant_$k.diff" || exit 2
timeout 3000 cargo nextest run --workspace --no-fail-fast --test-threads 8 --offline >".mutants/confirm_${k}_suite.log" 2>&1; suite=$?
git checkout -q -- .
echo "mutant $k of $wt: suite-with-change (re-run) exit=$suite  $(grep -E 'Summary|tests run' .mutants/confirm_${k}_suite.log | tail -1)"
