#!/usr/bin/env python3
"""mkprompt.py <ID> [<n>] [<suffix>] — prints the sub-agent prompt for one property (only the property's text goes in)."""
import json, sys
pid = sys.argv[1]; n = sys.argv[2] if len(sys.argv) > 2 else "3"; suf = sys.argv[3] if len(sys.argv) > 3 else ""
p = next(json.loads(l) for l in open('/verif/properties.jsonl') if json.loads(l)['id'] == pid)
t = open('/verif/tools/mutant_prompt.md').read()
print(t.replace('{WT}', f'/tmp/wt-{pid}{suf}').replace('{ID}', pid).replace('{TITLE}', p['title'])
      .replace('{STATEMENT}', p['statement']).replace('{QUANT}', p['quantifier']['text']).replace('{N}', n))
