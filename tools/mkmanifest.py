#!/usr/bin/env python3
"""Regenerates /verif/MANIFEST.json from the table below (kept as code so that every entry has the same shape)."""
import json, subprocess

HOOK_COMMITS = subprocess.run(
    ["git", "-C", "/repo", "log", "--format=%h %s", "--grep=^verif hooks"], capture_output=True, text=True
).stdout.strip().splitlines()

TECH = "deterministic simulation with fault injection: seeded search over schedules / completion orders / workloads under an owned scheduler (shuttle mechanism, own choice-stream policy), reference-model oracles over the recorded history"

CLAIMED = {
 "C01": ("exploration", "5.C01", "the real HybridCache (memory -> keeper -> block engine with flushers, reclaimers, recovery, tombstone log) over the simulated device, one sequential client plus foyer's background tasks; every interleaving of the client with eviction hand-off, flusher batching, device completion order, reclaim, and graceful restarts is a scheduler/io decision; every value is tagged (key, version), every lookup result is judged inline against the sequential reference model with the property's exclusions (overload sheds per key). In half of the runs a second foreground client works concurrently on its own keys (evictions land inside the first client's operations), and flushing is held for stretches of operations (versions that exist only in the write queue).",
         "value oracle needs self-describing values (>= 20 bytes); empty values are not part of the workload; two clients on the SAME key across the tiers are not explored"),
 "C15": ("exploration", "5.C15", "short histories ending in close() (+ optional writes to fresh keys / repeated close) and reopen on the same simulated image, both policies, flush_on_close on/off; entries resident at close must be retrievable with their latest value after real recovery; nothing may be handed to the disk tier by close() when flushing is off, by a repeated close(), or after close() returned. A fifth of the runs drop the last handle instead of closing (the harness waits for the background close task); a quarter mix in oversize values and a small write-queue threshold: a shed at the threshold only excuses a loss if the bytes submitted since the last completed wait() can exceed it.",
         "devices are sized so that no reclaim happens in C15 cases (the property's own exclusion); post-close writes only touch fresh keys"),
 "C16": ("exploration", "5.C16", "listener, weighter, memory filter, storage filters and the destructors of keys and values first read the per-task count of held foyer locks (a direct, timing-free detector) and then re-enter the same single-shard cache; shuttle's non-reentrant locks turn a callback under a write lock into an immediate deadlock report; multi-client runs look for lock-order cycles. A quarter of the runs have no event listener; a destructor deadlocking under a lock aborts the process and is reported by the supervising parent.",
         "locks counted are the ones foyer takes through the verif shims (all parking_lot/std locks of foyer-memory and foyer-storage); mea's async mutex in the tombstone log is not counted"),
 "C02": ("exploration", "5.C02", "seeded search over thread interleavings of 2-4 client threads (plus foyer's own fetch tasks and resize threads) against the real Cache for all five algorithms; per-key Wing-Gong linearizability search against an atomic register whose reads may miss; handles re-read at quiescence. Sampling, not proof. A fetch whose round an explicit insert closed before its origin resolved never writes; a tenth of the runs contend one key with fetch rounds that get closed and reopened.",
         "shuttle explores SeqCst only; histories <= 22 ops per key; capacity eviction modelled as 'reads may miss'"),
 "C03": ("fault_enumeration", "5.C03", "real workloads (all compression modes, tombstone log on/off, with reclaim so older generations exist) run to a graceful close; then one recovery per fault on the closed image: for pages that hold data x {bit flip, zeroed page, swap within a block, swap with the same page of another block, each older generation of the page} plus structure-aware bit flips (one inside every field of the entry headers, blob indexes and tombstones an independent parser locates on the page) plus random multi-fault sets (thorough: every such page x every kind; quick: a sample); each recovery is a fresh simulated execution that reopens in Quiet mode and reads every key; also live corruption (reads return flipped / zeroed / misdirected bytes or fail) in running stores. A lookup must give a miss, an error or a value that was stored for that key at some time; reopen must complete. A full-index variant fills a two-page blob index completely and flips every index field and each low bit of the count. A run that aborts the process (absurd allocation) is a violation, reported by the supervising parent.",
         "4 KiB pages are the unit of damage; live read faults are not injected while the store is opening"),
 "C04": ("fault_enumeration", "5.C04", "hybrid workloads of inserts, overwrites, deletes and waits end in process death; one recovery per crash point: the image is the issue-order prefix of the device write log plus a page-granular tear of the next write (thorough: every write boundary, every tear subset for writes of <= 6 pages, samples above; quick: 8 points per run); each recovery is a fresh simulated execution running the real recovery code, then every key is read. Always: miss or a version really inserted for that key. While no block was reclaimed before the crash point: the latest operation on the key that was handed to the disk tier, not shed, and covered by a completed wait() bounds the result (that version or newer; miss-or-newer for a delete with the tombstone log). Repeated cycles: after a share of the recoveries the recovered store is written again (new versions, deletes, evict_all + wait), dies a second time at a prefix of those writes and is recovered once more; versions flushed after the restart must supersede everything from before it. A second family of crash points goes by completion state: every write the device had acknowledged when write m was issued plus any subset of the writes then in flight.",
         "crash states are issue-order prefixes (the statement's wording) and completion-state subsets; acknowledgements are taken from the recorded wait()/close() returns and the submission probes; a big-blob variant reaches two-page blob indexes"),
 "C05": ("exploration", "5.C05", "operation-by-operation reference-model check (single client, every step a quiescent point: usage/entries vs findable entries, eviction minimality and bound per insert from on_leave events, clear, resize, shard-capacity sum) plus multi-client runs checked at quiescence by an actual lookup sweep. A quarter of the runs contain abandoned fetches (the caller drops the future; the reference reserved for the closed waiter must be given back).",
         "the schedule dimension only matters for the multi-client and resize parts; weights 0..5, capacities 0..10, shards 1..4"),
 "C06": ("exploration", "5.C06", "2-5 overlapping callers per key with harness-controlled origins (ok / error / preempted), concurrent insert / remove / fetch-task cancellation; oracle: at most one origin per key at a time, every caller answered (deadlock / step bound = violation), answers explained by an origin of their round, failed fetch caches nothing. Memory-only and hybrid variants. Includes a first round closed by an explicit insert while its (often failing) origin is still resolving, followed by a second round of the key: the late error must not reach the second round.",
         "origin futures are harness futures; cancellation = abort of the spawned fetch task at its next poll"),
 "C07": ("exploration", "5.C07", "forced storage-writer inserts of exact page counts (1 page .. the per-entry maximum and one beyond), batches separated by waits or not (so blobs continue across batches and batches span blocks), buffers from barely one entry to several blocks, 1-3 flushers, reclaim and reuse, reopen; at every quiescent point three views must agree: the write log parsed by an independent parser (entries written in each block's current generation), the image scanned from offset 0 by the same independent parser following blob indexes (alignment, containment, disjointness), and foyer's own view (every key may_contains claims loads; after reopen every newest intact entry of the image that no tombstone covers is indexed). The independent scan applies the format's sequence rule; after a reopen whatever the disk tier serves must be the newest entry alive in the image. A big-block variant (1 MiB blocks, one-page entries) fills a blob index exactly at a batch boundary, continues with a second blob and ends the new data of a reused block at an old blob index.",
         "identity hasher; clear() is excluded (destroy() does not reset the flushers' write positions)"),
 "C08": ("exploration", "5.C08", "typed runs (u64/String keys; Vec<u8>, Bytes, String, bool and every numeric type at boundary values as values; lengths 0 .. beyond the per-entry maximum, compressible and incompressible, None/Zstd/Lz4) pushed through the real serializer, flush buffer, splitter and device with buffers down to less than one entry; read back from the write queue, from disk and after recovery: equal to what was stored (or to an older write of the same key), header lengths equal the encoded lengths, entries that do not fit are rejected as a whole (shed event, no index entry), serializer failures are the size-limit error. Two builds of the simulator share the budget: foyer's default codec and foyer with the `serde` feature (blanket bincode implementation of Code). Compression is set on the engine through a guarded hook (the store builder's setting never reaches the engine at this commit); for compressed entries the first value_len bytes of the body must decompress to exactly the encoded value.",
         "the pure numeric codec table is exercised only through these values"),
 "C09": ("exploration", "5.C09", "sustained insert load of 3-8 device capacities (mixed sizes, overwrites, deletes) on devices down to the smallest configuration the engine accepts without warning, flushers 1-3, reclaimers 1-2, reinsertion none / a key class; device-level invariants on every applied write (no overlap within a block generation, blob index rewritten only with a superset, first write after a clean at the block start, no overlapping in-flight writes), C01's value oracle alongside, final wait()/close() must return (deadlock or step bound = violation), reinsertion-class entries loadable after their block's reclaim once the device is idle, single-flusher single-reclaimer runs reclaim in fill order.",
         "write-on-insertion policy only (no background hand-offs); fill order is issue order"),
 "C10": ("fault_enumeration", "5.C10", "histories with up to several tombstone-log pages of deletes (beyond the 256 slots of one page, below the log capacity), re-inserts, and 1-4 restart cycles (graceful, or process death after wait()) with further deletes in each cycle, flusher counts 1-3; after every restart each real key is read and judged by the value oracle: a key whose delete was flushed reads absent, a re-inserted key is not hidden. A flushed insert must not be hidden after a restart (first lookup hits); a wrap variant overflows a one-page log.",
         "crash points are restricted to moments right after a completed wait() (torn tombstone pages are covered by C04's crash enumeration); one real key universe of 16-48 keys plus filler deletes"),
 "C11": ("exploration", "5.C11", "every ordering of {fetch starts, explicit insert completes, origin resolves ok/err (with a preemption point inside its final poll), further lookups} for 1-3 waiters, all algorithms; premise evaluated on event sequence numbers; late result must never be delivered or cached. The hybrid round also runs with on-disk advised keys, with the key in the disk write queue (flushing held) and with a second fetch round; phantom inserts are judged; no later lookup sees the version the key had on disk before the round.",
         "origin futures are harness futures with a sync preemption point in their last poll"),
 "C12": ("exploration", "5.C12", "short hybrid histories (each placement advice, get, get_or_fetch hit/miss, evictions, close) under both policies, admission admit / reject / throttle, probation-marking pickers; every device data write is parsed by an independent parser and attributed to (key, version, engine sequence); licences are derived from the recorded inserts / fresh fetches / evictions (with the age the looked-up handle reported); unlicensed writes, missing licensed writes (by the next wait/close after submission), in-memory-only entries on disk, on-disk-advised entries resident in memory and origin polls while the disk lookup is held are violations. Between two reclaims the disk hits reported Age::Old come from at most floor(ratio x blocks) distinct blocks (FIFO picker); a wrap variant overwrites a small device with a third of the blocks on probation.",
         "compression off in C12 cases so that values are readable in the write log; a hand-over counts from the submission probe (foyer_verif hook)"),
 "C13": ("exploration", "5.C13", "conservation over the recorded listener / pipe events: every admitted version leaves exactly once with the matching reason, never before a lookup that still finds it, Evict leavers (incl. evict_all, flush, resize, disk-only drop) offered to the pipe exactly once, others never; single- and multi-client, cache drop included. A listener-free view samples the findable set after every operation of single-client runs (evicted entries offered exactly once, removed / replaced ones never); a quarter of those runs install no listener; the pipe hands disk-only pieces back (insert_piece).",
         "recording EventListener and Pipe; phantom (disk-only / filter-rejected) entries are judged on the pipe offer only"),
 "C17": ("exploration", "5.C17", "keys built to collide (all 64 bits, or same shard) under a harness hasher; memory: linearizability per key plus 'nothing lost with ample capacity'; hybrid: value oracle of C01 incl. write queue and restart.",
         "collisions are produced by a user-supplied BuildHasher, as the property stipulates"),
 "C18": ("exploration", "5.C18", "handles re-read at every quiescent point; LRU pin intervals (from lookup handles) vs on_leave(Evict); release + one insert per shard must restore the capacity bound; is_outdated compared with an actual lookup (final) and with the sequential model (stepwise). Includes abandoned fetches (closed waiter channels must not leak the reserved reference).",
         "pin intervals start when the harness logged the lookup's return (never wider than reality)"),
}

NOT_APPLICABLE = {
 "C14": "pure function of the operation sequence for a single shard: no schedule, clock, I/O or fault enters it; deciding it needs five reference implementations plus input generation (model-based testing), not simulation. Its concurrent clauses are covered by C18 (LRU never evicts a held looked-up entry) and C05 (eviction minimality / capacity bound).",
}
PENDING = {}

def entry(pid, v):
    cat, ref, text, note = v
    return {
        "property_id": pid,
        "quick_cmd": f"./check {pid} --tier quick",
        "thorough_cmd": f"./check {pid} --tier thorough",
        "evidence_file": f"/verif/evidence/{pid}.json",
        "replay_cmd_template": f"./check --replay {{path}}",
        "engine": "fsim",
        "level_claimed": {"category": cat, "text": text, "design_ref": ref},
        "level_note": note,
        "technique": TECH,
    }

m = {
 "version": 1,
 "setup_cmd": "./check --setup",
 "hooks": {
   "guard": "--cfg foyer_verif (rustc cfg)",
   "enable": "RUSTFLAGS='--cfg foyer_verif --cfg tokio_unstable' via /verif/sim/.cargo/config.toml; shadow manifests under /verif/sim/shadow/<crate> ([lib] path = /repo/<crate>/src/lib.rs) add the shuttle dependency without touching /repo's manifests",
   "baseline_off_cmd": "cd /repo && cargo nextest run --workspace --no-fail-fast --test-threads 8 --offline || cargo test --workspace --no-fail-fast --offline",
   "source_commits": [c.split()[0] for c in HOOK_COMMITS],
   "add_only": True,
 },
 "engines": [{
   "name": "fsim", "path": "/verif/sim/fsim",
   "serves_properties": sorted(CLAIMED.keys()),
   "kind_free_text": "deterministic simulator: real foyer compiled with --cfg foyer_verif onto shuttle coroutines, own Scheduler driven by recorded choice streams, simulated device / io engine with write log and crash images, reference-model oracles, shrinker, replay files",
 }],
 "checks": [entry(k, v) for k, v in sorted(CLAIMED.items())],
 "not_applicable": [{"property_id": k, "reason": v} for k, v in sorted({**NOT_APPLICABLE, **PENDING}.items())],
 "notes": "Exit codes of every check: 0 held, 1 violation (VIOLATION property=<id> replay=<path>), 2 harness error (build failure, nondeterminism, panic in /verif code). VERIF_SEED selects the batch (default 20260923); VERIF_RUNS / VERIF_BUDGET_S / VERIF_WORKERS override the tier's size. known_findings.json lists fixed defects (suppress nothing) and known findings.",
}
import sys
extra = json.load(open('/verif/tools/manifest_extra.json')) if __import__('os').path.exists('/verif/tools/manifest_extra.json') else {}
json.dump(m, open('/verif/MANIFEST.json', 'w'), indent=1)
print("claimed:", sorted(CLAIMED), "n/a:", sorted({**NOT_APPLICABLE, **PENDING}))
