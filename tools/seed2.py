#!/usr/bin/env python3
"""seed2.py <wt-ID> <k> <seeded-name> <property> <caught 1|0> <needs-short> <check-results-json> [<strengthened-note>]
Copies a confirmed seeded change from /tmp/wt-<ID>/.mutants into /verif/seeded/<name>/ and writes meta.json."""
import json, os, shutil, sys, re
_, wid, k, name, prop, caught, needs_short, results = sys.argv[:8]
strengthened = sys.argv[8] if len(sys.argv) > 8 else ""
src = f"/tmp/wt-{wid}/.mutants"
dst = f"/verif/seeded/{name}"
os.makedirs(dst, exist_ok=True)
shutil.copy(f"{src}/mutant_{k}.diff", f"{dst}/patch.diff")
shutil.copy(f"{src}/demo_{k}.rs", f"{dst}/demo.rs")
for f in ("demo", "note"):
    p = f"{src}/{f}_{k}.txt"
    if os.path.exists(p):
        shutil.copy(p, f"{dst}/{f}.txt")
note = open(f"{dst}/note.txt").read() if os.path.exists(f"{dst}/note.txt") else ""
confirm = ""
lp = f"/tmp/confirm-{wid}.log"
for line in open(lp) if os.path.exists(lp) else []:
    if line.startswith(f"mutant {k} "):
        confirm = re.sub(r"\s+", " ", line.strip())
files = sorted(set(re.findall(r"^diff --git a/(\S+)", open(f"{dst}/patch.diff").read(), re.M)))
meta = {
    "breaks_property": prop,
    "source": "fresh sub-agent given only the property text and a scratch worktree (tools/mutant_prompt.md)",
    "files_changed": files,
    "needs_short": needs_short,
    "what_it_needs_to_manifest": note.strip(),
    "confirmation": {
        "how": "tools/confirm_mutant.sh in the scratch worktree: demo on the original tree, demo with the change, "
               "then `cargo nextest run --workspace --no-fail-fast --test-threads 8 --offline` with the change",
        "result": confirm,
    },
    "caught": caught == "1",
    "checks_run": json.loads(results),
}
if strengthened:
    meta["strengthened"] = strengthened
json.dump(meta, open(f"{dst}/meta.json", "w"), indent=1)
print("saved", dst)
