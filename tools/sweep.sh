#!/bin/bash
# usage: sweep.sh <seed>...   — every claimed check's quick tier on the unchanged tree, per seed; evidence redirected.
# Prints one line per (seed, property); anything but exit 0 is a broken check (or a genuine finding to triage).
cd /verif || exit 2
for seed in "$@"; do
  for p in $(python3 -c "import json;print(' '.join(c['property_id'] for c in json.load(open('/verif/MANIFEST.json'))['checks']))"); do
    s=$(date +%s)
    out=$(VERIF_SEED=$seed VERIF_EVIDENCE_DIR=/tmp/ev-sweep ./check $p --tier quick 2>&1); code=$?
    echo "seed=$seed $p exit=$code $(( $(date +%s)-s ))s known=$(echo "$out" | grep -c '^KNOWN-FINDING') $(echo "$out" | grep -m1 '^VIOLATION') | $(echo "$out" | tail -1 | cut -c1-160)"
    [ $code -ne 0 ] && echo "$out" | grep -E '^\s+\[C|HARNESS' | head -3 | cut -c1-400
  done
done
