#!/usr/bin/env python3
"""Regenerates the table of seeded changes in DESIGN.md (between the SEEDED-TABLE markers) from seeded/*/meta.json."""
import json, glob, os, re
rows = []
for d in sorted(glob.glob('/verif/seeded/*/')):
    mp = d + 'meta.json'
    if not os.path.exists(mp):
        continue
    m = json.load(open(mp))
    name = os.path.basename(d.rstrip('/'))
    needs = m.get('needs_short') or m.get('what_it_needs_to_manifest', '').strip().split('\n')[0]
    needs = re.sub(r'\s+', ' ', needs)[:230]
    res = '; '.join(f"`{k}`: {v}" for k, v in m.get('checks_run', {}).items())
    res = re.sub(r'\s+', ' ', res)[:330]
    caught = m.get('caught')
    rows.append(f"| {name} | {m.get('breaks_property')} | {needs} | {'**caught**' if caught else ('caught' if caught is None and 'exit 1' in res else '**missed**' if caught is False else '?')} | {res} |")
table = "| seeded change | property | what it is / needs to manifest | verdict | checks run against it |\n|---|---|---|---|---|\n" + "\n".join(rows)
p = '/verif/DESIGN.md'
s = open(p).read()
if '<!-- SEEDED-TABLE-BEGIN -->' in s:
    s = re.sub(r'<!-- SEEDED-TABLE-BEGIN -->.*<!-- SEEDED-TABLE-END -->', lambda _: '<!-- SEEDED-TABLE-BEGIN -->\n' + table + '\n<!-- SEEDED-TABLE-END -->', s, flags=re.S)
else:
    s = s.replace('SEEDED-TABLE', '<!-- SEEDED-TABLE-BEGIN -->\n' + table + '\n<!-- SEEDED-TABLE-END -->')
open(p, 'w').write(s)
print(len(rows), 'rows')
