#!/bin/bash
# Determinism self-test. For every listed property the first n run indices are executed
#   (a) sequentially in one process, (b) again in a second process, (c) by the batch driver with 16 workers,
#   (d) by the batch driver with 1 worker,
# and the per-run hashes of everything observable (event order, context switches, steps, events) are compared.
# Any divergence exits 2.
set -u
n="${1:-150}"; shift || true
props="${*:-C01 C02 C03 C04 C05 C06 C07 C08 C09 C10 C11 C12 C13 C15 C16 C17 C18}"
bin=/verif/sim/target/release/fsim
tmp=$(mktemp -d /verif/sim/target/selftest.XXXXXX)
rc=0
for p in $props; do
  "$bin" --selftest-determinism "$p" "$n" 2>/dev/null | sed -E 's/ schedlen=.*//' > "$tmp/a" &
  "$bin" --selftest-determinism "$p" "$n" 2>/dev/null | sed -E 's/ schedlen=.*//' > "$tmp/b" &
  wait
  VERIF_EVIDENCE_DIR="$tmp/ev" VERIF_HASHLOG="$tmp/c" VERIF_RUNS=$n VERIF_BUDGET_S=100000 VERIF_WORKERS=16 "$bin" "$p" >/dev/null 2>&1
  VERIF_EVIDENCE_DIR="$tmp/ev" VERIF_HASHLOG="$tmp/d" VERIF_RUNS=$n VERIF_BUDGET_S=100000 VERIF_WORKERS=1 "$bin" "$p" >/dev/null 2>&1
  ok=yes
  for x in b c d; do
    if ! cmp -s "$tmp/a" "$tmp/$x"; then ok=no; echo "HARNESS-ERROR: nondeterminism in $p (variant $x)"; diff "$tmp/a" "$tmp/$x" | head -4; rc=2; fi
  done
  echo "$p: $(wc -l < "$tmp/a") runs x 4 executions identical=$ok"
done
rm -rf "$tmp"
exit $rc
