#!/bin/bash
# Mirrors /verif/sim (sources only) into /tmp/verif-try/sim with every /repo path rewritten to /tmp/repo-try, so that
# seeded changes can be tried (applied in the scratch worktree /tmp/repo-try) while /repo and /verif stay untouched.
set -e
rsync -a --delete --exclude target /verif/sim/ /tmp/verif-try/sim/
sed -i 's#"/repo/#"/tmp/repo-try/#g' /tmp/verif-try/sim/shadow/*/Cargo.toml
sed -i 's#/verif/sim/target#/tmp/verif-try/sim/target#g' /tmp/verif-try/sim/.cargo/config.toml
grep -rn '/repo' /tmp/verif-try/sim/shadow/*/Cargo.toml /tmp/verif-try/sim/Cargo.toml /tmp/verif-try/sim/fsim/Cargo.toml | grep -v repo-try | head -5 || true
git -C /tmp/repo-try checkout -q --detach $(git -C /repo rev-parse HEAD)
sed -i 's#loc.starts_with("/repo/")#loc.starts_with("/tmp/repo-try/")#' /tmp/verif-try/sim/fsim/src/run.rs
