#!/bin/bash
# usage: confirm_mutant.sh <worktree> <k> <crate-dir>     (run in a scratch worktree of /repo, never in /repo)
# Confirms a seeded change: the demo passes on the original, fails with the change, and the repository's own test
# suite still passes with the change. Prints a summary line.
set -u
wt="$1"; k="$2"; crate="$3"
cd "$wt" || exit 2
export CARGO_NET_OFFLINE=true CARGO_TARGET_DIR="$wt/target"
git checkout -q -- . ; mkdir -p "$crate/tests"
cp ".mutants/demo_$k.rs" "$crate/tests/mutant_demo_$k.rs"
pkg=$(basename "$crate")
timeout 900 cargo test --offline -q -p "$pkg" --test "mutant_demo_$k" >".mutants/confirm_${k}_orig.log" 2>&1; orig=$?
git apply ".mutants/mutant_$k.diff" || { echo "mutant $k: does not apply"; exit 2; }
timeout 900 cargo test --offline -q -p "$pkg" --test "mutant_demo_$k" >".mutants/confirm_${k}_mut.log" 2>&1; mut=$?
rm -f "$crate/tests/mutant_demo_$k.rs"
timeout 3000 cargo nextest run --workspace --no-fail-fast --test-threads 8 --offline >".mutants/confirm_${k}_suite.log" 2>&1; suite=$?
git checkout -q -- .
echo "mutant $k of $wt: demo-on-original exit=$orig demo-with-change exit=$mut suite-with-change exit=$suite  $(grep -E 'Summary|tests run' .mutants/confirm_${k}_suite.log | tail -1)"
