#!/bin/bash
# usage: try_mutant.sh <patch.diff> <ID> [<ID>...]
# Applies a seeded change to /repo, runs the quick check of each listed property, undoes the change.
# Prints one line per property: "<ID> exit=<code> <first VIOLATION/KNOWN line>".
set -u
patch="$1"; shift
if [ -n "$(git -C /repo status --porcelain)" ]; then echo "repo not clean" >&2; exit 2; fi
git -C /repo apply "$patch" || { echo "patch does not apply" >&2; exit 2; }
trap 'git -C /repo checkout -- .' EXIT
for id in "$@"; do
  out=$(cd /verif && VERIF_BUDGET_S=${BUDGET:-150} VERIF_EVIDENCE_DIR=/tmp/mut-evidence ${TIER:+VERIF_TIER=$TIER} ./check "$id" ${TIER:+--tier $TIER} 2>&1); code=$?
  echo "$id exit=$code $(echo "$out" | grep -m1 '^VIOLATION')"
  echo "$out" | grep -E '^\s+\[C' | head -3
  echo "$out" | tail -1
done
