#define _GNU_SOURCE
#include <stddef.h>
#include <sys/types.h>
#include <string.h>
ssize_t getrandom(void *buf, size_t len, unsigned int flags) { memset(buf, 0x5a, len); return (ssize_t)len; }
int getentropy(void *buf, size_t len) { memset(buf, 0x5a, len); return 0; }
